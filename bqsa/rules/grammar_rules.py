"""C06: the shipped parser is the translation of the grammar; precedence/associativity derived from the grammar;
grammar <-> AST classes <-> semantic actions; ordered-choice shadowing of terminals; lexical examples.

TatSu is used as a *translator* (grammar text -> parser source, grammar text -> grammar model).  No BQL text
is parsed by any of these rules.
"""
from __future__ import annotations

import ast
import functools
import json
import os
import re

from ..loader import AnalysisError, FuncInfo, ClassInfo, loc
from ..report import RuleResult, VERIF

PA = 'beanquery.parser.parser'


def unparse(n):
    return ast.unparse(n)


@functools.lru_cache(maxsize=4)
def _grammar(repo):
    import tatsu
    path = os.path.join(repo, 'beanquery', 'parser', 'bql.ebnf')
    if not os.path.exists(path):
        raise AnalysisError('anchor vanished: beanquery/parser/bql.ebnf')
    text = open(path, encoding='utf-8').read()
    try:
        model = tatsu.compile(text)
        source = tatsu.to_python_sourcecode(text)
    except Exception as exc:   # noqa: BLE001
        raise AnalysisError(f'bql.ebnf is not a valid TatSu grammar: {exc}') from exc
    return text, model, source


def _dump(node):
    return ast.dump(node, annotate_fields=True, include_attributes=False)


def _strip_doc(fn):
    body = fn.body
    if body and isinstance(body[0], ast.Expr) and isinstance(body[0].value, ast.Constant) and isinstance(body[0].value.value, str):
        body = body[1:]
    return body


# ----------------------------------------------------------------------
# R-REGEN

def rule_regen(P) -> RuleResult:
    res = RuleResult('R-REGEN')
    res.exhaustive = True
    text, model, source = _grammar(P.repo)
    shipped = P.module(PA)
    gen = ast.parse(source)

    def classes(tree):
        return {n.name: n for n in tree.body if isinstance(n, ast.ClassDef)}
    g, s = classes(gen), classes(shipped.tree)
    for cname in sorted(set(g) | set(s)):
        if cname not in s:
            res.fail(f'{PA}:{cname}', 'regen:class-missing', f'the grammar translates to a class {cname} that parser.py lacks')
            continue
        if cname not in g:
            res.fail(f'{PA}:{cname}', 'regen:class-extra', f'parser.py defines {cname}, which the grammar does not produce')
            continue
        gm = {n.name: n for n in g[cname].body if isinstance(n, ast.FunctionDef)}
        sm = {n.name: n for n in s[cname].body if isinstance(n, ast.FunctionDef)}
        for m in sorted(set(gm) | set(sm)):
            construct = f'{PA}:{cname}.{m}'
            if m not in sm:
                res.fail(construct, 'regen:missing', f'grammar rule `{m.strip("_")}` has no method in the shipped parser '
                         f'(parser.py was not regenerated after a grammar change)')
            elif m not in gm:
                res.fail(construct, 'regen:extra', f'the shipped parser has a method {m} that the grammar does not produce')
            else:
                a = [_dump(x) for x in _strip_doc(gm[m])] + [_dump(d) for d in gm[m].decorator_list] + [_dump(gm[m].args)]
                b = [_dump(x) for x in _strip_doc(sm[m])] + [_dump(d) for d in sm[m].decorator_list] + [_dump(sm[m].args)]
                if a != b:
                    res.fail(construct, 'regen:differs',
                             f'the shipped parser method {m} is not the translation of grammar rule `{m.strip("_")}`: the parser '
                             f'accepts a different language than the published grammar', f'{shipped.path}:{sm[m].lineno}')
                else:
                    res.ok({'method': f'{cname}.{m}', 'equal': 'syntax trees identical'})

    def top_assign(tree, name):
        for n in tree.body:
            if isinstance(n, ast.Assign) and unparse(n.targets[0]) == name:
                return _dump(n.value)
        return None
    for name in ('KEYWORDS',):
        if top_assign(gen, name) != top_assign(shipped.tree, name):
            res.fail(f'{PA}:{name}', 'regen:keywords', 'the reserved keyword set of the shipped parser differs from the grammar\'s @@keyword list')
        else:
            res.ok({'constant': name})
    return res


# ----------------------------------------------------------------------
# grammar model helpers

def _G():
    from tatsu import grammars as G
    return G


def _rules(model):
    return {r.name: r for r in model.rules}


def _cls(r):
    return r.params[0].split('::')[0] if r.params else None


def _base(r):
    p = r.params[0].split('::') if r.params else []
    return p[1] if len(p) > 1 else None


def _children(e):
    G = _G()
    if isinstance(e, G.Choice):
        return list(e.options)
    if isinstance(e, G.Sequence):
        return list(e.sequence)
    out = []
    for attr in ('exp', 'sep'):
        x = getattr(e, attr, None)
        if x is not None and not isinstance(x, str):
            out.append(x)
    return out


def _named(e):
    G = _G()
    out = []

    def walk(x):
        if isinstance(x, (G.Named, G.NamedList)):
            out.append(x.name)
        for c in _children(x):
            walk(c)
    walk(e)
    return out


# ----------------------------------------------------------------------
# R-ASTFIELDS

def _ast_fields(P):
    astm = P.module('beanquery.parser.ast')
    fields = {}
    bases = {}
    for name, v in astm.assigns.items():
        if isinstance(v, ast.Call) and unparse(v.func) == 'node' and len(v.args) == 2 and all(isinstance(a, ast.Constant) for a in v.args):
            fields[v.args[0].value] = v.args[1].value.split()
            bases[v.args[0].value] = ['Node']
            if name != v.args[0].value:
                fields[name] = fields[v.args[0].value]
    for ci in astm.classes.values():
        ann = [s.target.id for s in ci.node.body if isinstance(s, ast.AnnAssign) and isinstance(s.target, ast.Name)]
        bs = [unparse(b) for b in ci.node.bases]
        bases[ci.name] = bs
        if ann:
            fields[ci.name] = [a for a in ann if a != 'parseinfo']
        elif ci.name not in fields:
            # inherits the fields of its base
            for b in bs:
                if b in fields:
                    fields[ci.name] = fields[b]
    return fields, bases


def rule_astfields(P) -> RuleResult:
    res = RuleResult('R-ASTFIELDS')
    res.exhaustive = True
    text, model, _ = _grammar(P.repo)
    fields, bases = _ast_fields(P)
    n = 0
    for r in model.rules:
        c = _cls(r)
        if not c:
            continue
        n += 1
        construct = f'grammar:{r.name}'
        if c not in fields:
            res.fail(construct, 'astfields:class', f'rule {r.name} builds {c}, which parser/ast.py does not define')
            continue
        names = {x.rstrip('_') for x in _named(r.exp)}
        want = set(fields[c])
        if names - want:
            res.fail(construct, 'astfields:unknown', f'rule {r.name} sets {sorted(names - want)}, which are not fields of {c} '
                     f'({sorted(want)}): constructing the node fails with TypeError')
        elif want - names and want - names != want:
            # fields never set by the rule stay at... there is no default: the dataclass call would fail
            res.fail(construct, 'astfields:missing', f'rule {r.name} never sets field(s) {sorted(want - names)} of {c}')
        else:
            res.ok({'rule': r.name, 'class': c, 'fields': sorted(want)})
        b = _base(r)
        if b and b not in bases.get(c, []):
            res.fail(construct, 'astfields:base', f'{c} is declared ::{b} in the grammar but derives from {bases.get(c)} in ast.py')
    if n < 30:
        raise AnalysisError(f'only {n} rules with an AST class')
    return res


# ----------------------------------------------------------------------
# R-FIELDONCE: along every derivation path of a rule a field is captured at most once (unless declared a list capture), and
# every alternative of a node rule gives each field the same kind of value (a rule result vs. the constant of a flag keyword)

def _field_paths(e, limit=4000, keywords=False):
    """-> set of tuples (sorted multiset of (name, kind)) over the derivation paths of the expression; kind 'value' | 'flag'
    (with keywords=True also ('WORD', 'kw') for every alphabetic token met on the path)"""
    G = _G()
    if keywords:
        _fp = lambda x: _field_paths(x, limit, True)
        if isinstance(e, G.Token):
            return {((e.token.upper(), 'kw'),)} if e.token.isalpha() else {()}
    else:
        _fp = _field_paths

    def seq(a, b):
        out = {tuple(sorted(x + y)) for x in a for y in b}
        if len(out) > limit:
            raise AnalysisError('grammar: too many derivation paths in one rule')
        return out
    if isinstance(e, G.NamedList):
        inner = _fp(e.exp)
        return {tuple(sorted(x + ((e.name.rstrip('_') + '+', 'list'),))) for x in inner}
    if isinstance(e, G.Named):
        kind = 'flag' if isinstance(e.exp, G.Constant) else 'value'
        inner = _fp(e.exp)
        return {tuple(sorted(x + ((e.name.rstrip('_'), kind),))) for x in inner}
    if isinstance(e, G.Choice):
        out = set()
        for o in e.options:
            out |= _fp(o)
        return out
    if isinstance(e, G.Sequence):
        cur = {()}
        for x in e.sequence:
            cur = seq(cur, _fp(x))
        return cur
    if isinstance(e, G.Optional):
        return {()} | _fp(e.exp)
    if isinstance(e, (G.Closure, G.PositiveClosure, G.Join, G.PositiveJoin)) or type(e).__name__ in ('Gather', 'PositiveGather', 'EmptyClosure'):
        inner = _fp(e.exp) if getattr(e, 'exp', None) is not None else {()}
        # a capture inside a repetition is a capture made any number of times
        return {tuple(sorted((n + '*', k) for n, k in x)) for x in inner} | {()}
    out = {()}
    for c in _children(e):
        out = seq(out, _fp(c))
    return out


def rule_fieldonce(P) -> RuleResult:
    res = RuleResult('R-FIELDONCE')
    res.exhaustive = True
    text, model, _ = _grammar(P.repo)
    n = 0
    for r in model.rules:
        if not _cls(r):
            continue
        n += 1
        construct = f'grammar:{r.name}'
        paths = _field_paths(r.exp)
        bad = None
        for path in sorted(paths):
            names = [nm for nm, k in path if not nm.rstrip('*').endswith('+')]      # `name+:` captures are lists by declaration
            base = [nm.rstrip('*') for nm in names]
            dup = sorted({b for b in base if base.count(b) > 1} | {nm.rstrip('*') for nm in names if nm.endswith('*')})
            if dup:
                bad = (dup, path)
                break
        if bad:
            res.fail(construct, f'fieldonce:{bad[0][0].rstrip("*")}', f'rule {r.name}: on a derivation path the field `{bad[0][0].rstrip("*")}` is '
                     f'captured more than once with `:` ({[nm for nm, _ in bad[1]]}): TatSu then collects the values into a list, and the '
                     f'consumers of the node (which expect a date, a flag or a node) silently take none of their branches')
            continue
        # a flag (a constant captured after a keyword) is stored in the field named like its keyword
        G = _G()
        flags = []

        def walk(x, kw):
            if isinstance(x, G.Sequence):
                for y in x.sequence:
                    if isinstance(y, G.Token) and y.token.isalpha():
                        kw = y.token
                    else:
                        walk(y, kw)
                return
            if isinstance(x, (G.Named, G.NamedList)) and isinstance(x.exp, G.Constant) and kw is not None:
                flags.append((kw, x.name.rstrip('_')))
                return
            for c in _children(x):
                walk(c, kw)
        walk(r.exp, None)
        wrong = [(kw, nm) for kw, nm in flags if nm != kw.lower() and str(kw).isalpha()]
        if wrong:
            kw, nm = wrong[0]
            res.fail(construct, f'fieldonce:flag:{kw}', f'rule {r.name}: the flag of keyword {kw} is stored in field `{nm}`: the clause is '
                     f'taken for another one')
            continue
        # a clause keyword whose node has a field of its name leaves a trace there: on every derivation path on which the keyword is
        # read, that field is captured (a date, a sub-tree or the flag True) - otherwise the clause is accepted and silently ignored
        fields = {nm.rstrip('*').rstrip('+') for path in paths for nm, k in path}
        lost = None
        for path in sorted(_field_paths(r.exp, keywords=True)):
            kws = {nm for nm, k in path if k == 'kw'}
            caps = {nm.rstrip('*').rstrip('+') for nm, k in path if k != 'kw'}
            for kw in sorted(kws):
                if kw.lower() in fields and kw.lower() not in caps:
                    lost = (kw, sorted(kws), sorted(caps))
                    break
            if lost:
                break
        if lost:
            res.fail(construct, f'fieldonce:lost:{lost[0]}', f'rule {r.name}: on a derivation path that reads the keyword {lost[0]} (keywords '
                     f'{lost[1]}, captures {lost[2]}) the field `{lost[0].lower()}` is not set: the clause is accepted and has no effect')
            continue
        res.ok({'rule': r.name, 'derivation_paths': len(paths), 'fields_captured_at_most_once': True, 'flags': [f'{k}->{n}' for k, n in flags]})
    if n < 30:
        raise AnalysisError(f'only {n} rules with an AST class')
    return res


# ----------------------------------------------------------------------
# R-SEMANTICS

def rule_semantics(P) -> RuleResult:
    import datetime
    import decimal
    from .. import registry
    from ..absint import Interp, Frame, A, TOP, atoms_of, join_all, NoneT
    res = RuleResult('R-SEMANTICS')
    text, model, _ = _grammar(P.repo)
    rules = _rules(model)
    pm = P.module('beanquery.parser')
    sem = pm.classes.get('BQLSemantics')
    if sem is None:
        raise AnalysisError('anchor vanished: BQLSemantics')
    reg = registry.get(P)
    it = Interp(P, reg)
    want = {'integer': int, 'decimal': decimal.Decimal, 'date': datetime.date, 'string': str, 'boolean': bool,
            'null': NoneT, 'identifier': str}
    for name, fi in sem.methods.items():
        if name.startswith('_') or name == 'set_context':
            continue
        if name not in rules:
            res.fail(fi.fq, 'semantics:orphan', f'semantic action `{name}` names no grammar rule: it is never called, and whatever it '
                     f'converted stays a plain string', loc(fi))
            continue
        if name in want:
            env = it.new_env(fi)
            env['self'] = TOP
            env[fi.params[1]] = A(str)
            frame = it.run_function(fi, env)
            r = join_all([v for v, _ in frame.returns]) if frame.returns else A(NoneT)
            a = atoms_of(r)
            if a is TOP:
                res.unresolved += 1
                res.ok({'action': name, 'result': 'TOP (unresolved)'})
            elif a != A(want[name]):
                res.fail(fi.fq, 'semantics:type', f'the `{name}` literal must become a Python {want[name].__name__}; the action returns '
                         f'{sorted(t.__name__ for t in a)}', loc(fi))
            else:
                res.ok({'action': name, 'result': want[name].__name__})
        else:
            res.ok({'action': name, 'rule': name})
    # a rule that declares its node class (`and::And::BoolOp`) gets its tree from the default action - the node of that class over
    # the named elements, nothing moved or merged: an action of its own for such a rule (a method, or a class attribute bound to a
    # helper; TatSu also looks the name up with a trailing underscore) builds a different tree than the grammar describes, and
    # text written with the parentheses a tree needs no longer parses back to that tree
    import re as _re
    typed = set(_re.findall(r'(?m)^([a-z_]+)::[A-Za-z]', text))
    for name in list(sem.methods) + list(getattr(sem, 'attrs', {}) or {}):
        base = name[:-1] if name.endswith('_') and name[:-1] in typed else name
        if base in typed and not name.startswith('_'):
            res.fail(f'{sem.fq}.{name}', 'semantics:typed-rule', f'rule `{base}` declares its node class in the grammar; the semantic action '
                     f'`{name}` replaces the default construction of that node, so the parsed tree is no longer the one the grammar (and the '
                     f'printed form of a tree) describes', loc(sem))
    if len(typed) < 30:
        raise AnalysisError(f'only {len(typed)} rules with a declared node class found in bql.ebnf')
    if not any(f.detail == 'semantics:typed-rule' for f in res.findings):
        res.ok({'typed_rules': len(typed), 'actions_on_typed_rules': 0})
    for name in want:
        if name in rules and name not in sem.methods:
            res.fail(f'{sem.fq}.{name}', 'semantics:missing', f'terminal rule `{name}` has no semantic action: the literal stays a string')
    # the literal actions on concrete texts (term interpreter): the value a literal stands for
    from ..symex import Engine as _E, Sym as _S, T as _T, show as _sh
    vectors = {
        'string': [("'abc'", 'abc'), ('"abc"', 'abc'), ("''", ''), ("'a\"b'", 'a"b'), ("' x '", ' x '), ('"it\'s"', "it's"),
                   ("'\"q\"'", '"q"'), ('"\'q\'"', "'q'"), ("'\"'", '"')],
        'boolean': [('TRUE', True), ('FALSE', False)],
        'null': [('NULL', None)],
        'integer': [('42', 42), ('007', 7), ('0', 0)],
        'identifier': [('Account', 'account'), ('payee', 'payee'), ('COST_NUMBER', 'cost_number')],
    }
    # a rule written with tokens hands its action the token as spelled in the grammar; a rule written with a pattern hands it the text as
    # typed - under @@ignorecase any letter case: the action then has to stand for the same value in every case
    Gm = _G()

    def has_pattern(e):
        return isinstance(e, Gm.Pattern) or any(has_pattern(c) for c in _children(e))
    for name in ('boolean', 'null'):
        if name in rules and has_pattern(rules[name].exp):
            vectors[name] = vectors[name] + [(t.lower(), v) for t, v in vectors[name]] + [(t.capitalize(), v) for t, v in vectors[name]]
    for name, vecs in vectors.items():
        fi = sem.methods.get(name)
        if fi is None:
            continue
        good = True
        for text_, want_v in vecs:
            for p_ in _E(P).paths(fi, {'self': _S('SEMANTICS'), fi.params[1]: text_}):
                got = p_.value if p_.outcome == 'return' else f'{p_.outcome} {p_.value[0] if p_.value else ""}'
                if p_.decisions or not (got is want_v or (type(got) is type(want_v) and got == want_v)):
                    good = False
                    res.fail(fi.fq, 'semantics:string-strip' if name == 'string' else f'semantics:value:{name}',
                             f'the {name} literal `{text_}` stands for {want_v!r}; the action gives {_sh(got) if not isinstance(got, str) else repr(got)}'
                             + (' (a string literal is its text without the two delimiters)' if name == 'string' else ''), loc(fi))
                    break
            if not good:
                break
        if good:
            res.ok({'action': name, 'vectors': len(vecs)})
    for name, callee, arg_check in (('decimal', 'decimal.Decimal', None), ('date', None, '%Y-%m-%d')):
        fi = sem.methods.get(name)
        if fi is None:
            continue
        TEXT = _S('LITERAL_TEXT')
        for p_ in _E(P).paths(fi, {'self': _S('SEMANTICS'), fi.params[1]: TEXT}):
            v = p_.value
            shown = _sh(v)
            if name == 'decimal':
                good = isinstance(v, _T) and v.op == 'call' and str(v.args[0]).endswith('Decimal') and v.args[1] == (TEXT,) and not v.args[2]
                want_s = 'decimal.Decimal(text)'
            else:
                good = shown.replace('"', "'") == "datetime.datetime.strptime(LITERAL_TEXT, '%Y-%m-%d').date()"
                want_s = "datetime.datetime.strptime(text, '%Y-%m-%d').date()"
            if p_.decisions or p_.outcome != 'return' or not good:
                res.fail(fi.fq, f'semantics:value:{name}', f'the {name} literal stands for {want_s}; the action gives `{shown[:100]}`', loc(fi))
            else:
                res.ok({'action': name, 'value': want_s})
    # an action that raises one of TatSu's parse-failure exceptions turns a malformed literal into a *rule failure*: the PEG parser then
    # backtracks and reads the same text as something else (2014-02-30 as the subtraction 2014 - 02 - 30) instead of rejecting it
    for name, fi in sem.methods.items():
        for n_ in ast.walk(fi.node):
            if isinstance(n_, ast.Raise) and n_.exc is not None:
                e_ = n_.exc.func if isinstance(n_.exc, ast.Call) else n_.exc
                d_ = fi.module.dotted(e_) or ast.unparse(e_)
                if d_.startswith('tatsu.') or d_.split('.')[-1] in ('FailedSemantics', 'FailedParse', 'FailedToken', 'FailedPattern', 'FailedRef'):
                    res.fail(fi.fq, f'semantics:backtrack:{name}', f'the action `{name}` raises {d_.split(".")[-1]}: for TatSu that is a failed rule, so '
                             f'the text is parsed again by the next alternative and accepted with another meaning (a date-shaped literal '
                             f'that is not a calendar date becomes an arithmetic expression)', loc(fi))
    # the structural actions: ORDER BY direction, `*`, lists, and the default action that builds the node of a typed rule
    from ..symex import SList as _SL, gname as _gn
    SEM = _S('SEMANTICS')

    def run(name, env):
        fi = sem.methods.get(name)
        if fi is None:
            raise AnalysisError(f'anchor vanished: BQLSemantics.{name}')
        ps = [p_ for p_ in _E(P).paths(fi, {'self': SEM, **{fi.params[i + 1]: v for i, v in enumerate(env)}})]
        return fi, ps
    for written, want_member in ((None, 'ASC'), ('ASC', 'ASC'), ('DESC', 'DESC')):
        fi, ps = run('ordering', [written])
        for p_ in ps:
            v = p_.value
            good = p_.outcome == 'return' and not p_.decisions and (
                (isinstance(v, _T) and v.op == 'item' and _gn(v.args[0]).split('.')[-1] == 'Ordering' and v.args[1] == want_member) or
                (isinstance(v, _T) and v.op in ('attr', 'global') and _sh(v).replace("global('", '').replace("')", '').split('.')[-2:] == ['Ordering', want_member]))
            if good:
                res.ok({'action': 'ordering', 'written': written or '(nothing)', 'direction': want_member})
            else:
                res.fail(fi.fq, 'semantics:ordering', f'ORDER BY x {written or ""}'.rstrip() + f' sorts {"ascending" if want_member == "ASC" else "descending"} '
                         f'(Ordering.{want_member}); the action gives `{_sh(v)[:80]}`', loc(fi))
    fi, ps = run('asterisk', ['*'])
    for p_ in ps:
        v = p_.value
        if p_.outcome == 'return' and isinstance(v, _T) and v.op == 'call' and str(v.args[0]).split('.')[-1] == 'Asterisk' and not v.args[1] and not v.args[2]:
            res.ok({'action': 'asterisk', 'node': 'Asterisk()'})
        else:
            res.fail(fi.fq, 'semantics:asterisk', f'`*` stands for an Asterisk node; the action gives `{_sh(v)[:80]}`', loc(fi))
    CL = _S('PARSED_ELEMENTS')
    fi, ps = run('list', [CL])
    for p_ in ps:
        v = p_.value
        if p_.outcome == 'return' and not p_.decisions and (v == CL or (isinstance(v, _T) and v.op == 'call' and v.args[0] in ('list', 'tuple') and v.args[1] == (CL,))):
            res.ok({'action': 'list', 'value': 'all parsed elements, in order'})
        else:
            res.fail(fi.fq, 'semantics:list', f'a parenthesised list stands for the list of all its elements in order; the action gives `{_sh(v)[:80]}`', loc(fi))
    V, F, N = _S('RULE_VALUE'), _S('FIELD_VALUE_1'), _S('FIELD_VALUE_2')
    fi, ps = run('_default', [V, None])
    for p_ in ps:
        if p_.outcome == 'return' and p_.value == V and not p_.decisions:
            res.ok({'action': '_default', 'untyped_rule': 'the parsed value itself'})
        else:
            res.fail(fi.fq, 'semantics:default', f'the value of a rule without a node type is the parsed value itself; the action gives `{_sh(p_.value)[:80]}`', loc(fi))
    fi, ps = run('_default', [_SL([('from_', F), ('name', N)], kind='dict'), 'Table'])
    for p_ in ps:
        v = p_.value
        good = p_.outcome == 'return' and not p_.decisions and isinstance(v, _T) and v.op == 'call' and str(v.args[0]).split('.')[-1] == 'Table' and \
            not v.args[1] and sorted(v.args[2]) == [('from', F), ('name', N)]
        if good:
            res.ok({'action': '_default', 'typed_rule': 'the node class of that name, one keyword per captured field, trailing underscores dropped'})
        else:
            res.fail(fi.fq, 'semantics:default', f'a rule typed `Table` capturing from_ and name builds ast.Table(from=..., name=...): every captured '
                     f'field under its own name (the underscore TatSu appends to reserved names dropped); the action gives `{_sh(v)[:100]}`', loc(fi))
    return res


# ----------------------------------------------------------------------
# R-PRECMATRIX

LEVELS = [
    ['Or'], ['And'], ['Not'],
    ['Less', 'LessEq', 'Greater', 'GreaterEq', 'Equal', 'NotEqual', 'In', 'NotIn', 'Match', 'NotMatch', 'IsNull', 'IsNotNull', 'Between'],
    ['Add', 'Sub'], ['Mul', 'Div', 'Mod'], ['Neg'], ['Attribute', 'Subscript'],
]
LEVEL_OF = {c: i for i, cs in enumerate(LEVELS) for c in cs}
OPS = [c for cs in LEVELS for c in cs]


def _expected(parent, field):
    """Operator classes admissible in operand `field` of `parent` without parentheses, from the level table."""
    lv = LEVEL_OF[parent]

    def at_least(k):
        return {c for c in OPS if LEVEL_OF[c] >= k}
    if parent in ('Or', 'And'):
        return at_least(lv + 1)                       # n-ary, flattened: arguments strictly tighter
    if parent in ('Not', 'Neg'):
        return at_least(lv)                           # right-recursive prefix operators
    if lv == 3:
        return at_least(4)                            # comparisons are non-associative; BETWEEN bounds at the sum level
    if parent in ('Add', 'Sub', 'Mul', 'Div', 'Mod'):
        return at_least(lv) if field == 'left' else at_least(lv + 1)      # left-associative
    if parent in ('Attribute', 'Subscript'):
        return at_least(lv) if field == 'operand' else set()
    return set()


def _prec_matrix(model):
    G = _G()
    rules = _rules(model)

    def strip(e):
        while isinstance(e, (G.Option, G.Group)) or (isinstance(e, G.Sequence) and len(e.sequence) == 1):
            e = e.exp if not isinstance(e, G.Sequence) else e.sequence[0]
        return e

    def unit_targets(e):
        e = strip(e)
        if isinstance(e, G.RuleRef):
            return [e.name]
        if isinstance(e, G.Choice):
            out = []
            for o in e.options:
                out += unit_targets(o)
            return out
        if isinstance(e, G.Sequence):
            seq = [strip(x) for x in e.sequence if not isinstance(x, G.Cut)]
            toks = [x for x in seq if isinstance(x, G.Token)]
            ovs = [x for x in seq if isinstance(x, G.Override)]
            if len(ovs) == 1 and len(seq) == len(toks) + 1:
                idx = seq.index(ovs[0])
                if idx == len(seq) - 1 and len(toks) >= 1:
                    return unit_targets(ovs[0].exp)      # prefix form: transparent
                return []                                # token on both sides: a bracket
        return []

    @functools.lru_cache(None)
    def derivable(name):
        # node classes reachable through rules that only hand on what a sub-rule built (a depth-first walk with a visited set: a
        # grammar may hand on in a cycle - `uplus = '+' @:factor`, factor -> unary -> uplus)
        out, seen, work = set(), set(), [name]
        while work:
            n = work.pop()
            if n in seen or n not in rules:
                continue
            seen.add(n)
            r = rules[n]
            c = _cls(r)
            if c:
                out.add(c)
                continue
            work.extend(unit_targets(r.exp))
        return frozenset(out)

    matrix = {}
    for r in model.rules:
        c = _cls(r)
        if c not in LEVEL_OF:
            continue

        def walk(e):
            if isinstance(e, (G.Named, G.NamedList)):
                inner = strip(e.exp)
                tg = unit_targets(inner.exp) if isinstance(inner, (G.Gather, G.PositiveGather, G.Closure, G.PositiveClosure)) \
                    else unit_targets(e.exp)
                s = matrix.setdefault((c, e.name.rstrip('_')), set())
                for t in tg:
                    s |= derivable(t)
            for ch in _children(e):
                walk(ch)
        walk(r.exp)
    return matrix


def rule_precmatrix(P) -> RuleResult:
    res = RuleResult('R-PRECMATRIX')
    res.exhaustive = True
    text, model, _ = _grammar(P.repo)
    matrix = _prec_matrix(model)
    seen_classes = {c for c, _ in matrix}
    for c in OPS:
        if c not in seen_classes:
            res.fail(f'grammar:{c}', 'precmatrix:missing', f'no grammar rule builds the operator node {c}')
    for (c, field), got in sorted(matrix.items()):
        got_ops = {x for x in got if x in LEVEL_OF}
        want = _expected(c, field)
        construct = f'grammar:{c}.{field}'
        if got_ops == want:
            res.ok({'parent': c, 'operand': field, 'admits_unparenthesised': sorted(got_ops)})
            continue
        extra, lack = sorted(got_ops - want), sorted(want - got_ops)
        msg = []
        if extra:
            msg.append(f'admits {extra} without parentheses (binds looser than the level table allows: '
                       f'e.g. wrong associativity or precedence)')
        if lack:
            msg.append(f'does not admit {lack} without parentheses')
        res.fail(construct, 'precmatrix:operand', f'operand `{field}` of {c} ' + ' and '.join(msg) +
                 '; required: OR < AND < NOT < comparison/IN/BETWEEN/IS NULL < + - < * / % < unary minus < attribute/subscript, '
                 'left-associative arithmetic, non-associative comparisons')
    return res


# ----------------------------------------------------------------------
# regex -> NFA (for R-SHADOW and R-LEXSPEC)

class NFA:
    def __init__(self):
        self.n = 0
        self.eps = {}
        self.tr = {}     # state -> list of (frozenset(chars), target)

    def new(self):
        self.n += 1
        return self.n - 1

    def add_eps(self, a, b):
        self.eps.setdefault(a, set()).add(b)

    def add(self, a, chars, b):
        self.tr.setdefault(a, []).append((chars, b))

    def closure(self, states):
        out = set(states)
        work = list(states)
        while work:
            s = work.pop()
            for t in self.eps.get(s, ()):
                if t not in out:
                    out.add(t)
                    work.append(t)
        return frozenset(out)


ALPHABET = frozenset(chr(i) for i in range(9, 127))
_CATS = {
    'CATEGORY_DIGIT': frozenset('0123456789'),
    'CATEGORY_SPACE': frozenset(' \t\n\r\x0b\x0c'),
    'CATEGORY_WORD': frozenset('abcdefghijklmnopqrstuvwxyzABCDEFGHIJKLMNOPQRSTUVWXYZ0123456789_'),
}


def _charset(items, ignorecase):
    out = set()
    neg = False
    for op, av in items:
        name = str(op)
        if name == 'NEGATE':
            neg = True
        elif name == 'LITERAL':
            out.add(chr(av))
        elif name == 'RANGE':
            out.update(chr(c) for c in range(av[0], av[1] + 1))
        elif name == 'CATEGORY':
            cat = str(av)
            if cat.startswith('CATEGORY_NOT_'):
                out |= ALPHABET - _CATS['CATEGORY_' + cat[len('CATEGORY_NOT_'):]]
            else:
                out |= _CATS[cat]
        else:
            raise AnalysisError(f'regex: unsupported set item {name}')
    if ignorecase:
        out |= {c.swapcase() for c in out}
    s = frozenset(c for c in out if c in ALPHABET)
    return ALPHABET - s if neg else s


def _build(nfa, parsed, start, ignorecase):
    """Thompson construction for one sre_parse sequence; returns the end state."""
    cur = start
    for op, av in parsed:
        name = str(op)
        if name == 'LITERAL':
            nxt = nfa.new()
            cs = {chr(av)}
            if ignorecase:
                cs |= {chr(av).swapcase()}
            nfa.add(cur, frozenset(cs), nxt)
            cur = nxt
        elif name == 'NOT_LITERAL':
            nxt = nfa.new()
            nfa.add(cur, ALPHABET - {chr(av)}, nxt)
            cur = nxt
        elif name == 'ANY':
            nxt = nfa.new()
            nfa.add(cur, ALPHABET - {'\n'}, nxt)
            cur = nxt
        elif name == 'IN':
            nxt = nfa.new()
            nfa.add(cur, _charset(av, ignorecase), nxt)
            cur = nxt
        elif name == 'BRANCH':
            end = nfa.new()
            for alt in av[1]:
                s = nfa.new()
                nfa.add_eps(cur, s)
                e = _build(nfa, alt, s, ignorecase)
                nfa.add_eps(e, end)
            cur = end
        elif name == 'SUBPATTERN':
            cur = _build(nfa, av[3], cur, ignorecase)
        elif name in ('MAX_REPEAT', 'MIN_REPEAT'):
            lo, hi, sub = av
            for _ in range(lo):
                cur = _build(nfa, sub, cur, ignorecase)
            if str(hi) == 'MAXREPEAT':
                loop = nfa.new()
                nfa.add_eps(cur, loop)
                e = _build(nfa, sub, loop, ignorecase)
                nfa.add_eps(e, loop)
                cur = loop
            else:
                end = nfa.new()
                nfa.add_eps(cur, end)
                for _ in range(hi - lo):
                    cur = _build(nfa, sub, cur, ignorecase)
                    nfa.add_eps(cur, end)
                cur = end
        elif name == 'AT':
            pass     # anchors ($ in the eol comment pattern): position assertions do not consume
        else:
            raise AnalysisError(f'regex: unsupported construct {name}')
    return cur


def regex_nfa(pattern, ignorecase=False):
    import re._parser as sre
    nfa = NFA()
    s = nfa.new()
    e = _build(nfa, sre.parse(pattern), s, ignorecase)
    return nfa, s, e


def accepts(pattern, string, ignorecase=False):
    nfa, s, e = regex_nfa(pattern, ignorecase)
    cur = nfa.closure({s})
    for ch in string:
        nxt = set()
        for st in cur:
            for chars, t in nfa.tr.get(st, ()):
                if ch in chars:
                    nxt.add(t)
        cur = nfa.closure(nxt)
        if not cur:
            return False
    return e in cur


def prefix_shadow(first, later, ignorecase=True):
    """Is there a string of `later` that has a prefix in `first`?  -> witness string or None."""
    a, sa, ea = regex_nfa(first, ignorecase)
    b, sb, eb = regex_nfa(later, ignorecase)
    # product of (A then Sigma*) and B; state: (frozenset of A states or 'DONE', frozenset of B states)
    start = (a.closure({sa}), b.closure({sb}))
    seen = {start: ''}
    work = [start]
    while work:
        st = work.pop(0)
        sa_, sb_ = st
        w = seen[st]
        a_done = sa_ == 'DONE' or ea in sa_
        if a_done and eb in sb_ and w != '':
            return w
        if a_done and eb in sb_ and w == '':
            # both accept the empty string: not a shadowing of interest
            pass
        # group alphabet by behaviour: try each char (alphabet is small)
        for ch in sorted(ALPHABET):
            nb = set()
            for s in sb_:
                for chars, t in b.tr.get(s, ()):
                    if ch in chars:
                        nb.add(t)
            if not nb:
                continue
            nb = b.closure(nb)
            if a_done:
                na = 'DONE'
            else:
                na = set()
                for s in sa_:
                    for chars, t in a.tr.get(s, ()):
                        if ch in chars:
                            na.add(t)
                if not na:
                    continue
                na = a.closure(na)
            key = (na if na == 'DONE' else frozenset(na), nb)
            if key not in seen and len(w) < 40:
                seen[key] = w + ch
                work.append(key)
    return None


def language_difference(rx1, rx2, ignorecase=False, limit=60):
    """A string accepted by exactly one of the two patterns (shortest first), or None when the languages are equal.

    Subset construction on the fly over the product of the two Thompson automata; the alphabet is printable ASCII plus
    tab, newline, carriage return (ALPHABET), partitioned by the character sets occurring in the two automata."""
    a, sa, ea = regex_nfa(rx1, ignorecase)
    b, sb, eb = regex_nfa(rx2, ignorecase)
    sets = {chars for nfa in (a, b) for trs in nfa.tr.values() for chars, _ in trs}
    # one representative per behaviour class
    classes = {}
    for ch in sorted(ALPHABET):
        sig = tuple(ch in cs for cs in sorted(sets, key=lambda x: sorted(x)))
        classes.setdefault(sig, ch)
    reps = sorted(classes.values())

    def step(nfa, states, ch):
        nxt = set()
        for st in states:
            for chars, t in nfa.tr.get(st, ()):
                if ch in chars:
                    nxt.add(t)
        return nfa.closure(nxt)
    start = (a.closure({sa}), b.closure({sb}))
    seen = {start: ''}
    work = [start]
    while work:
        st = work.pop(0)
        xa, xb = st
        w = seen[st]
        if (ea in xa) != (eb in xb):
            return w
        if len(w) >= limit:
            continue
        for ch in reps:
            nx = (step(a, xa, ch), step(b, xb, ch))
            if not nx[0] and not nx[1]:
                continue
            if nx not in seen:
                seen[nx] = w + ch
                work.append(nx)
    return None


def rule_lexlang(P) -> RuleResult:
    """Every lexical class of the grammar denotes exactly the language of its reference definition (tables/lexlang.json):
    equivalence of the two finite automata, not sample strings."""
    res = RuleResult('R-LEXLANG')
    res.exhaustive = True
    text, model, _ = _grammar(P.repo)
    rules = _rules(model)
    directives = dict(model.directives)
    with open(os.path.join(VERIF, 'tables', 'lexlang.json'), encoding='utf-8') as f:
        rows = json.load(f)
    for row in rows:
        name = row['rule']
        if name.startswith('@@'):
            rx = directives.get(name[2:])
        else:
            rx = _terminal_regex(rules, name)
        if rx is None:
            raise AnalysisError(f'lexical rule {name} not found or not terminal')
        w = language_difference(rx, row['reference'], ignorecase=row.get('ignorecase', False))
        if w is None:
            res.ok({'rule': name, 'pattern': rx, 'equivalent_to': row['reference']})
        else:
            mine = accepts(rx, w, ignorecase=row.get('ignorecase', False))
            res.fail(f'grammar:{name}', f'lexlang:{name}', f'{name} ({row["meaning"]}): the pattern /{rx}/ '
                     f'{"accepts" if mine else "rejects"} {w!r}, which the definition /{row["reference"]}/ '
                     f'{"rejects" if mine else "accepts"}')
    # the generated parser carries the same comment patterns as the grammar (they are copied into two constructors)
    pm = P.modules.get('beanquery.parser.parser')
    if pm is not None:
        for key in ('comments_re', 'eol_comments_re'):
            vals = set()
            for n in ast.walk(pm.tree):
                if isinstance(n, ast.keyword) and n.arg == key and isinstance(n.value, ast.Constant):
                    vals.add(n.value.value)
            want = directives.get(key[:-3])
            if not vals:
                raise AnalysisError(f'generated parser: {key} not found')
            for v in vals:
                w = language_difference(v, want) if v is not None and want is not None else None
                if w is not None or (v is None) != (want is None):
                    res.fail(f'parser:{key}', f'lexlang:parser:{key}', f'the shipped parser skips {key[:-3]} by /{v}/, the grammar by /{want}/: '
                             f'they differ on {w!r}')
                else:
                    res.ok({'parser': key, 'equals_grammar': True})
    return res


def _terminal_regex(rules, name):
    """Regex of a terminal rule (pattern, token or choice of tokens); None if not terminal."""
    G = _G()
    r = rules.get(name)
    if r is None:
        return None
    e = r.exp
    while isinstance(e, (G.Group,)) or (isinstance(e, G.Sequence) and len(e.sequence) == 1):
        e = e.exp if not isinstance(e, G.Sequence) else e.sequence[0]
    if isinstance(e, G.Pattern):
        return e.pattern
    if isinstance(e, G.Token):
        return re.escape(e.token)
    if isinstance(e, G.Choice):
        parts = []
        for o in e.options:
            x = o
            while isinstance(x, (G.Option, G.Group)) or (isinstance(x, G.Sequence) and len(x.sequence) == 1):
                x = x.exp if not isinstance(x, G.Sequence) else x.sequence[0]
            if isinstance(x, G.Token):
                parts.append(re.escape(x.token))
            elif isinstance(x, G.Pattern):
                parts.append(x.pattern)
            else:
                return None
        return '(' + '|'.join(parts) + ')'
    return None


def rule_shadow(P) -> RuleResult:
    res = RuleResult('R-SHADOW')
    res.exhaustive = True
    G = _G()
    text, model, _ = _grammar(P.repo)
    rules = _rules(model)
    n = 0
    for r in model.rules:
        e = r.exp
        if not isinstance(e, G.Choice):
            continue
        alts = []
        for o in e.options:
            x = o
            while isinstance(x, (G.Option, G.Group)) or (isinstance(x, G.Sequence) and len(x.sequence) == 1):
                x = x.exp if not isinstance(x, G.Sequence) else x.sequence[0]
            if isinstance(x, G.RuleRef):
                rx = _terminal_regex(rules, x.name)
                alts.append((x.name, rx))
            elif isinstance(x, G.Token):
                alts.append((repr(x.token), re.escape(x.token)))
            else:
                alts.append((None, None))
        if sum(1 for _, rx in alts if rx) < 2:
            continue
        for i in range(len(alts)):
            for j in range(i + 1, len(alts)):
                (na, ra), (nb, rb) = alts[i], alts[j]
                if not ra or not rb:
                    continue
                n += 1
                w = prefix_shadow(ra, rb)
                if w is not None:
                    res.fail(f'grammar:{r.name}', f'shadow:{na}:{nb}',
                             f'in the ordered choice `{r.name}`, alternative {na} comes before {nb} and matches a prefix of the {nb} text '
                             f'`{w}`: PEG choice commits to {na}, so that {nb} literal can never be parsed')
                else:
                    res.ok({'choice': r.name, 'earlier': na, 'later': nb, 'overlap': 'none'})
    if n < 10:
        raise AnalysisError(f'only {n} ordered pairs of terminal alternatives found')
    return res


# ----------------------------------------------------------------------
# R-LEXSPEC

def rule_lexspec(P) -> RuleResult:
    res = RuleResult('R-LEXSPEC')
    text, model, _ = _grammar(P.repo)
    rules = _rules(model)
    with open(os.path.join(VERIF, 'tables', 'lexspec.json'), encoding='utf-8') as f:
        rows = json.load(f)
    directives = dict(model.directives)
    for row in rows:
        name, s, want = row['rule'], row['text'], row['member']
        if name.startswith('@@'):
            rx = directives.get(name[2:])
        else:
            rx = _terminal_regex(rules, name)
            if name == 'table':
                G = _G()
                e = rules['table'].exp
                pats = []

                def walk(x):
                    if isinstance(x, G.Pattern):
                        pats.append(x.pattern)
                    for c in _children(x):
                        walk(c)
                walk(e)
                rx = pats[0] if pats else None
        if rx is None:
            raise AnalysisError(f'lexical rule {name} not found or not terminal')
        ic = not name.startswith('@@')
        try:
            got = accepts(rx, s, ignorecase=ic)
        except AnalysisError:
            got = re.fullmatch(rx, s, re.I | re.M) is not None
        if got != want:
            res.fail(f'grammar:{name}', f'lexspec:{s!r}', f'{name} must {"accept" if want else "reject"} `{s}` ({row["why"]}); '
                     f'its pattern /{rx}/ {"accepts" if got else "rejects"} it')
        else:
            res.ok({'rule': name, 'text': s, 'member': want})
    return res


# ----------------------------------------------------------------------
# R-KEYWORDS: clause openers reserved or deliberately not

UNRESERVED = {'OPEN', 'CLOSE', 'CLEAR', 'ON', 'AT', 'BETWEEN', 'NULL'}   # usable as identifiers by design


def rule_keywords(P) -> RuleResult:
    res = RuleResult('R-KEYWORDS')
    G = _G()
    text, model, _ = _grammar(P.repo)
    kws = {k.upper() for k in model.keywords}
    toks = set()

    spaced = set()

    def walk(x):
        if isinstance(x, G.Token) and x.token.isalpha():
            toks.add(x.token.upper())
        elif isinstance(x, G.Token) and re.search(r'\s', x.token):
            spaced.add(x.token)
        for c in _children(x):
            walk(c)
    for r in model.rules:
        walk(r.exp)
    for t in sorted(spaced):
        res.fail('grammar:tokens', f'keywords:spaced:{t.upper()}', f'the token `{t}` contains white space: a token is matched character by '
                 f'character, so its words must be separated by exactly that white space - a line break, two blanks or a comment between '
                 f'them, which BQL allows between any two words, is rejected (and the words are no longer checked as reserved)')
    if not spaced:
        res.ok({'tokens_with_white_space': 0, 'word_tokens': len(toks)})
    for t in sorted(toks):
        if t in kws and t in UNRESERVED:
            res.fail('grammar:@@keyword', f'keywords:reserved:{t}', f'`{t}` is a word of BQL that is also a legal identifier (a target alias, an '
                     f'attribute, a function or placeholder name): reserving it rejects statements whose printed text was valid')
        elif t in kws:
            res.ok({'token': t, 'reserved': True})
        elif t in UNRESERVED:
            res.ok({'token': t, 'reserved': False, 'allowed': 'deliberately usable as an identifier'})
        else:
            res.fail(f'grammar:@@keyword', f'keywords:{t}', f'`{t}` opens a clause but is not reserved: an identifier named {t.lower()} '
                     f'changes how statements parse')
    # the name rule must not accept keywords: @name on identifier
    if '@name' not in text:
        res.fail('grammar:identifier', 'keywords:nameguard', 'the identifier rule is not marked @name: reserved words parse as identifiers')
    else:
        res.ok({'identifier': '@name'})
    if not model.directives.get('ignorecase'):
        res.fail('grammar:@@ignorecase', 'keywords:case', 'keywords must be case-insensitive (@@ignorecase :: True)')
    else:
        res.ok({'ignorecase': True})
    if not model.directives.get('parseinfo'):
        res.fail('grammar:@@parseinfo', 'keywords:parseinfo', 'AST nodes need parse positions (@@parseinfo :: True): expression-text names depend on them')
    else:
        res.ok({'parseinfo': True})
    return res


# ----------------------------------------------------------------------
# R-CLAUSEORDER (C06): the clauses of a statement come in the order of the published language

CLAUSE_ORDER = {
    # rule: the captured fields in the order their clauses are written
    'select': ['distinct', 'targets', 'from_clause', 'where_clause', 'group_by', 'order_by', 'pivot_by', 'limit'],
    'balances': ['summary_func', 'from_clause', 'where_clause'],
    'journal': ['account', 'summary_func', 'from_clause'],
    'print': ['from_clause'],
    'groupby': ['columns', 'having'],
    'order': ['column', 'ordering'],
    'pivotby': ['columns'],
}


def _capture_sequence(e):
    """Capture names in textual (left to right) order of the rule expression, first occurrence of each."""
    G = _G()
    out = []

    def walk(x):
        if isinstance(x, (G.Named, G.NamedList)):
            nm = x.name.rstrip('_')
            if nm not in out:
                out.append(nm)
        for c in _children(x):
            walk(c)
    walk(e)
    return out


def rule_clauseorder(P) -> RuleResult:
    res = RuleResult('R-CLAUSEORDER')
    res.exhaustive = True
    text, model, _ = _grammar(P.repo)
    rules = {r.name: r for r in model.rules}
    for name, want in CLAUSE_ORDER.items():
        r = rules.get(name)
        if r is None:
            raise AnalysisError(f'anchor vanished: grammar rule {name}')
        got = _capture_sequence(r.exp)
        if got == want:
            res.ok({'rule': name, 'clauses': want})
        elif sorted(got) == sorted(want):
            moved = [a for a, b in zip(got, want) if a != b]
            res.fail(f'grammar:{name}', f'clauseorder:{name}', f'rule {name}: the clauses of the statement are written in the order '
                     f'{want}; the grammar reads them in the order {got} ({moved[0]} moved): statements in the published clause order '
                     f'are rejected')
        else:
            res.fail(f'grammar:{name}', f'clauseorder:{name}:fields', f'rule {name}: the statement has the clauses {want}; the grammar '
                     f'captures {got}')
    return res


# ----------------------------------------------------------------------
# R-CLAUSELANG (C06, C15): every clause rule derives the word sequences of the published language - no more and no fewer

# the syntactic categories a clause is written in terms of; any other rule a clause refers to is expanded in place
CATEGORIES = ('select', 'target', 'asterisk', 'table', 'from', 'expression', 'groupby', 'order', 'pivotby', 'integer', 'date',
              'identifier', 'column', 'string')


def _S(*xs):
    return ('seq',) + xs


def _O(*xs):
    return ('opt', _S(*xs))


def _A(*xs):
    return ('alt',) + xs


def _L(x, sep=','):
    return ('list', x, sep)


_CLOSE = _O('CLOSE', _O('ON', '<date>'))
CLAUSE_LANGUAGE = {
    'select': _S('SELECT', _O('DISTINCT'), _A(_L('<target>'), '<asterisk>'),
                 _O('FROM', _A('<table>', _S('(', '<select>', ')'), '<from>')), _O('WHERE', '<expression>'),
                 _O('GROUP', 'BY', '<groupby>'), _O('ORDER', 'BY', _L('<order>')), _O('PIVOT', 'BY', '<pivotby>'), _O('LIMIT', '<integer>')),
    'from': _A(_S('OPEN', 'ON', '<date>', _CLOSE, _O('CLEAR')), _S('CLOSE', _O('ON', '<date>'), _O('CLEAR')), 'CLEAR',
               _S('<expression>', _O('OPEN', 'ON', '<date>'), _CLOSE, _O('CLEAR'))),
    'groupby': _S(_L(_A('<integer>', '<expression>')), _O('HAVING', '<expression>')),
    'order': _S(_A('<integer>', '<expression>'), _O(_A('ASC', 'DESC'))),
    # PIVOT BY takes exactly two columns, each given by name or by position independently of the other
    'pivotby': _S(_A('<integer>', '<column>'), ',', _A('<integer>', '<column>')),
    'target': _S('<expression>', _O('AS', '<identifier>')),
    'balances': _S('BALANCES', _O('AT', '<identifier>'), _O('FROM', '<from>'), _O('WHERE', '<expression>')),
    'journal': _S('JOURNAL', _O('<string>'), _O('AT', '<identifier>'), _O('FROM', '<from>')),
    'print': _S('PRINT', _O('FROM', '<from>')),
    # a named placeholder carries an identifier: lower-cased like every name, not a reserved word, blanks and comments allowed inside
    'placeholder': _A('%S', _S('%(', '<identifier>', ')S')),       # (tokens are compared upper-cased: @@ignorecase)
}


def _spec_shapes(x, cap=20000):
    """Word sequences of a specification term; a list stands for one and for two elements (enough to tell `x`, `x {sep x}` and
    a wrong or missing separator apart)."""
    if isinstance(x, str):
        return {(x,)}
    k = x[0]
    if k == 'seq':
        cur = {()}
        for y in x[1:]:
            cur = {a + b for a in cur for b in _spec_shapes(y)}
            if len(cur) > cap:
                raise AnalysisError('clause language: too many sequences')
        return cur
    if k == 'opt':
        return {()} | _spec_shapes(x[1])
    if k == 'alt':
        out = set()
        for y in x[1:]:
            out |= _spec_shapes(y)
        return out
    if k == 'list':
        one = _spec_shapes(x[1])
        return one | {a + (x[2],) + b for a in one for b in one}
    raise AnalysisError(f'clause language: bad specification term {x!r}')


def _grammar_shapes(rules, e, stack=(), cap=20000):
    """Word sequences the grammar expression derives: tokens in upper case, `<category>` for the rules of CATEGORIES, every other rule
    expanded in place; repetitions stand for the counts the specification lists (closure: 0-2, positive: 1-2)."""
    G = _G()

    def cat(a, b):
        out = {x + y for x in a for y in b}
        if len(out) > cap:
            raise AnalysisError('clause language: too many sequences in one grammar rule')
        return out
    sh = lambda x: _grammar_shapes(rules, x, stack, cap)
    if e is None:
        return {()}
    if isinstance(e, G.Token):
        return {(e.token.upper(),)}
    if isinstance(e, G.Pattern):
        return {(f'/{e.pattern}/',)}
    if isinstance(e, G.RuleRef):
        if e.name in CATEGORIES:
            return {(f'<{e.name}>',)}
        if e.name in stack or e.name not in rules:
            return {(f'<{e.name}>',)}
        return _grammar_shapes(rules, rules[e.name].exp, stack + (e.name,), cap)
    if isinstance(e, (G.Cut, G.Constant, G.EmptyClosure, G.Void, G.Lookahead, G.NegativeLookahead)):
        return {()}
    if isinstance(e, G.Choice):
        out = set()
        for o in e.options:
            out |= sh(o)
        return out
    if isinstance(e, G.Sequence):
        cur = {()}
        for x in e.sequence:
            cur = cat(cur, sh(x))
        return cur
    if isinstance(e, G.Optional):
        return {()} | sh(e.exp)
    if isinstance(e, (G.Join, G.Gather)):      # sep.{x}  (PositiveJoin / PositiveGather are subclasses: at least one)
        one = sh(e.exp)
        sep = sh(e.sep)
        two = cat(cat(one, sep), one)
        positive = isinstance(e, (G.PositiveJoin, G.PositiveGather))
        return one | two | (set() if positive else {()})
    if isinstance(e, G.Closure):
        one = sh(e.exp)
        two = cat(one, one)
        return one | two | (set() if isinstance(e, G.PositiveClosure) else {()})
    cs = _children(e)
    if len(cs) == 1:
        return sh(cs[0])
    if not cs:
        return {()}
    raise AnalysisError(f'clause language: grammar construct {type(e).__name__} not understood')


def rule_clauselang(P, only=None) -> RuleResult:
    res = RuleResult('R-CLAUSELANG')
    res.exhaustive = True
    text, model, _ = _grammar(P.repo)
    rules = _rules(model)
    for name, spec in CLAUSE_LANGUAGE.items():
        if only and name not in only:
            continue
        r = rules.get(name)
        if r is None:
            raise AnalysisError(f'anchor vanished: grammar rule {name}')
        want = _spec_shapes(spec)
        got = _grammar_shapes(rules, r.exp, (name,))
        lost = sorted(want - got, key=lambda s: (len(s), s))
        extra = sorted(got - want, key=lambda s: (len(s), s))
        if lost:
            res.fail(f'grammar:{name}', 'clauselang:lost', f'rule {name} no longer derives `{" ".join(lost[0])}`'
                     f'{f" (and {len(lost) - 1} more forms)" if len(lost) > 1 else ""}: a statement of the published language is rejected')
        if extra:
            res.fail(f'grammar:{name}', 'clauselang:extra', f'rule {name} also derives `{" ".join(extra[0]) or "(nothing)"}`'
                     f'{f" (and {len(extra) - 1} more forms)" if len(extra) > 1 else ""}, which is not a form of the clause: text that is '
                     f'not BQL is accepted and given some meaning')
        if not lost and not extra:
            res.ok({'rule': name, 'forms': len(want), 'agree_with_language': True})
    return res


def rule_clauselang_pivot(P) -> RuleResult:
    return rule_clauselang(P, only=('pivotby', 'select'))


# ----------------------------------------------------------------------
# R-CUTSAFE (C06): a cut commits the whole parse - no later alternative may have wanted the same first token

def _first_sets(model):
    """FIRST sets of every rule over tokens ('t', TEXT) and patterns ('p', regex, is_name_rule); '' marks nullable."""
    G = _G()
    rules = _rules(model)
    first = {r.name: set() for r in model.rules}
    is_name = {r.name: bool(getattr(r, 'is_name', False)) or any(getattr(d, 'name', d) == 'name' for d in (getattr(r, 'decorators', None) or [])) for r in model.rules}

    def fs(e, rule):
        if e is None:
            return {''}
        if isinstance(e, G.Token):
            return {('t', e.token.upper())}
        if isinstance(e, G.Pattern):
            return {('p', e.pattern, is_name.get(rule, False))}
        if isinstance(e, G.RuleRef):
            return set(first.get(e.name, set()))
        if isinstance(e, (G.Cut, G.Constant, G.EmptyClosure, G.Void, G.Lookahead, G.NegativeLookahead)):
            return {''}
        if isinstance(e, G.Choice):
            out = set()
            for o in e.options:
                out |= fs(o, rule)
            return out
        if isinstance(e, G.Sequence):
            out = set()
            for x in e.sequence:
                f = fs(x, rule)
                out |= f - {''}
                if '' not in f:
                    return out
            return out | {''}
        if isinstance(e, G.Optional):
            return fs(e.exp, rule) | {''}
        if isinstance(e, (G.Join, G.Gather)):
            f = fs(e.exp, rule)
            return f if isinstance(e, (G.PositiveJoin, G.PositiveGather)) else f | {''}
        if isinstance(e, G.Closure):
            f = fs(e.exp, rule)
            return f if isinstance(e, G.PositiveClosure) else f | {''}
        cs = _children(e)
        if len(cs) == 1:
            return fs(cs[0], rule)
        return {''}
    changed = True
    while changed:
        changed = False
        for r in model.rules:
            f = fs(r.exp, r.name)
            if not f <= first[r.name]:
                first[r.name] |= f
                changed = True
    return first, fs


# cuts confirmed by reading: (rule, first token of the prefix) -> why no later alternative is lost
CUT_EXCEPTIONS = {
    ('from', 'OPEN'): 'clause word at the head of FROM; not reserved, but the tables a FROM expression ranges over (entries, postings) have no column `open`',
    ('from', 'CLOSE'): 'clause word at the head of FROM; the entries and postings tables have no column `close`',
    ('from', 'CLEAR'): 'clause word at the head of FROM; the entries and postings tables have no column `clear`',
}


def rule_cutsafe(P) -> RuleResult:
    """In the generated parser a cut (`~`) is not local to its rule: once passed, a failure further on fails the whole parse instead of
    letting an enclosing choice try its next alternative.  For every cut that follows a terminal prefix at the head of its sequence:
    no later alternative of a choice the sequence stands in - in its own rule, or wherever its rule is referenced as an alternative -
    may begin with the same token; otherwise text that the later alternative parses is rejected as soon as it starts with that token."""
    res = RuleResult('R-CUTSAFE')
    res.exhaustive = True
    G = _G()
    text, model, _ = _grammar(P.repo)
    rules = _rules(model)
    first, fs = _first_sets(model)
    kws = {k.upper() for k in model.keywords}

    def strip(e):
        while isinstance(e, (G.Group, G.Option, G.Named, G.NamedList, G.Override, G.OverrideList)) or (isinstance(e, G.Sequence) and len(e.sequence) == 1):
            e = e.sequence[0] if isinstance(e, G.Sequence) else e.exp
        return e

    def can_start_with(fset, tok):
        for f in fset:
            if f == '':
                continue
            if f[0] == 't' and f[1] == tok:
                return f'the token {tok}'
            if f[0] == 'p':
                if f[2] and tok in kws:
                    continue        # a @name rule does not match reserved words
                try:
                    rx = re.compile(f[1], re.I)
                except re.error:
                    continue
                if any(rx.match(tok + tail) for tail in ('', 'a', '0', ' ')):
                    return f'the pattern /{f[1]}/'
        return None

    def heads(e):
        """[(prefix tokens, sequence)] for sequences in e (not descending into choices) where a Cut follows terminal tokens only."""
        e = strip(e)
        if isinstance(e, G.Sequence):
            pre = []
            for x in e.sequence:
                x = strip(x)
                if isinstance(x, G.Cut):
                    return pre if pre else None
                if isinstance(x, G.Token):
                    pre.append(x.token.upper())
                    continue
                return None
        return None

    n = 0

    def check(where, options, idx, prefix, via):
        nonlocal n
        for later in options[idx + 1:]:
            n += 1
            hit = can_start_with(fs(later, where) if not isinstance(later, str) else first[later], prefix[0])
            if hit:
                res.fail(f'grammar:{where}', f'cutsafe:{prefix[0]}', f'{via}: after `{" ".join(prefix)}` the parse is committed (cut), but a later '
                         f'alternative of the choice in rule {where} (`{str(later)[:50]}`) can also begin with {hit}: text it would parse is now a '
                         f'syntax error whenever it starts with `{prefix[0]}`')
                return False
        return True
    cuts = 0
    for r in model.rules:
        body = strip(r.exp)
        # (a) alternatives of a choice in the rule itself
        if isinstance(body, G.Choice):
            for i, o in enumerate(body.options):
                pre = heads(o)
                if pre:
                    cuts += 1
                    if (r.name, pre[0]) in CUT_EXCEPTIONS:
                        res.ok({'rule': r.name, 'cut_after': ' '.join(pre), 'confirmed_by_hand': CUT_EXCEPTIONS[(r.name, pre[0])]})
                        continue
                    if check(r.name, list(body.options), i, pre, f'rule {r.name}, alternative {i + 1}'):
                        res.ok({'rule': r.name, 'cut_after': ' '.join(pre), 'later_alternatives': 'begin with other tokens'})
        else:
            pre = heads(body)
            if not pre:
                continue
            cuts += 1
            good = True
            # (b) the rule is referenced as an alternative of a choice elsewhere
            for r2 in model.rules:
                def walk(e):
                    nonlocal good
                    e0 = strip(e)
                    if isinstance(e0, G.Choice):
                        for i, o in enumerate(e0.options):
                            o0 = strip(o)
                            if isinstance(o0, G.RuleRef) and o0.name == r.name:
                                good &= check(r2.name, list(e0.options), i, pre, f'rule {r.name} (used as an alternative in {r2.name})')
                    for c in _children(e0):
                        walk(c)
                walk(r2.exp)
            if good:
                res.ok({'rule': r.name, 'cut_after': ' '.join(pre), 'used_as_alternative': 'only before alternatives that begin with other tokens'})
    if cuts < 3:
        raise AnalysisError(f'only {cuts} cuts after a terminal prefix found in the grammar')
    return res


def rule_clauselang_target(P) -> RuleResult:
    return rule_clauselang(P, only=('target', 'select'))
