"""Table rules on the term interpreter: column access summaries (R-ACCESSPATH) and row generators (R-ROWGEN)."""
from __future__ import annotations

import ast
import builtins

from ..symex import Sym, T, SList, Engine, show, early_exits, gname
from ..loader import AnalysisError, FuncInfo, loc
from ..report import RuleResult

ROW = Sym('row')


def _chain(t):
    """attr chain rooted at ROW -> 'row.a.b' else None"""
    parts = []
    while isinstance(t, T) and t.op == 'attr':
        parts.append(t.args[1])
        t = t.args[0]
    if t == ROW:
        return '.'.join(['row'] + list(reversed(parts)))
    return None


def access_summary(P, fi: FuncInfo):
    """What a column accessor reads from the row and which outside functions it applies, over all its paths.

    The accessor is interpreted with an opaque row; helpers of the package are inlined, so extracting or inlining a helper,
    temporaries, early returns and comprehension-vs-builtin idioms do not change the summary."""
    paths, keys, calls = set(), set(), set()
    call_consts = set()
    m = fi.module

    def resolve_call(name):
        if not isinstance(name, str):
            return None
        head = name.split('(')[0]
        if '.' not in name:
            if hasattr(builtins, name) or not name.isidentifier():
                return None
            d = m.dotted(ast.Name(id=name, ctx=ast.Load()))
            return d if d and not d.startswith('builtins.') else name
        try:
            e = ast.parse(name, mode='eval').body
        except SyntaxError:
            return '.' + name.rsplit('.', 1)[-1]
        d = m.dotted(e) if isinstance(e, (ast.Attribute, ast.Name)) else None
        if d and not d.startswith('builtins.'):
            return d
        return '.' + name.rsplit('.', 1)[-1]

    def visit(v):
        if isinstance(v, T):
            if v.op == 'attr':
                c = _chain(v)
                if c is not None:
                    paths.add(c)
                    return
            if v.op == 'item' and isinstance(v.args[1], (str, int)) and not isinstance(v.args[1], bool):
                c = _chain(v.args[0])
                if c is not None:
                    keys.add(f'{c}[{v.args[1]!r}]')
            if v.op == 'call':
                r = resolve_call(v.args[0])
                if r is not None:
                    calls.add(r)
                    # options the accessor fixes in the call (flags, defaults): part of what is computed
                    for i_, a_ in enumerate(v.args[1]):
                        if a_ is None or isinstance(a_, (bool, int, str)):
                            call_consts.add(f'{r}(#{i_}={a_!r})')
                    for k_, a_ in v.args[2]:
                        if a_ is None or isinstance(a_, (bool, int, str)):
                            call_consts.add(f'{r}({k_}={a_!r})')
                if isinstance(v.args[0], str) and '.' in v.args[0]:
                    # the receiver of a method call is not in the term: it was printed into the name
                    pass
                for a in v.args[1]:
                    visit(a)
                for _, a in v.args[2]:
                    visit(a)
                return
            if v.op in ('lambda', 'func'):
                return
            for a in v.args:
                visit(a)
        elif isinstance(v, tuple):
            for a in v:
                visit(a)
        elif isinstance(v, SList):
            for a in v.items + v.tail:
                visit(a)
            if v.origin is not None:
                visit(v.origin[0])
                visit(v.origin[1])
                for c in v.origin[2]:
                    visit(c)

    recv_terms = []

    def on_call(fname, fval, recv, args, kwargs, ex, node):
        if recv is not None and not (isinstance(recv, T) and recv.op == 'global'):
            recv_terms.append(recv)
        return NotImplemented
    eng = Engine(P, on_call=on_call, max_paths=128)
    ps = eng.paths(fi, {fi.params[0]: ROW})
    consts = set()
    for p in ps:
        if p.outcome == 'return':
            visit(p.value)
            # values the accessor makes up itself instead of reading them: NULL, literals, empty containers
            v = p.value
            if v is None or isinstance(v, (bool, int, str)):
                consts.add(repr(v))
            elif isinstance(v, SList) and not v.items and not v.tail and v.origin is None and not v.opaque_tail:
                consts.add({'dict': '{}', 'set': 'set()', 'tuple': '()'}.get(v.kind, '[]'))
            elif isinstance(v, T) and v.op == 'tuple' and not v.args:
                consts.add('()')
        for t, _ in p.decisions:
            visit(t)
        for e in p.events:
            if e[0] == 'call':
                r = resolve_call(e[1])
                if r is not None:
                    calls.add(r)
                for a in e[2]:
                    visit(a)
            elif e[0] in ('store', 'aug'):
                visit(e[1])
                visit(e[-1])
    for r in recv_terms:
        visit(r)
    maximal = sorted(p for p in paths if not any(q != p and q.startswith(p + '.') for q in paths))
    return {'paths': maximal, 'calls': sorted(calls), 'keys': sorted(keys), 'consts': sorted(consts), 'call_consts': sorted(call_consts)}


# ----------------------------------------------------------------------
# R-ROWGEN

QE = 'beanquery.query_env'
SB = 'beanquery.sources.beancount'
ENTRIES = Sym('PREPARED_ENTRIES')


def _nest_events(path):
    """[(loop stack as tuple of seq terms, event)] for every event of the path."""
    out = []
    stack = []
    for e in path.events:
        if e[0] == 'loop-begin':
            stack.append(e[1])
        elif e[0] == 'loop-end':
            if stack:
                stack.pop()
        else:
            out.append((tuple(stack), e))
    return out


def _rename(t, ren):
    """Replace sub-terms by their renamings (bottom-up over T terms and tuples)."""
    if not ren:
        return t
    if t in ren:
        return ren[t]
    if isinstance(t, T):
        return T(t.op, tuple(_rename(a, ren) for a in t.args))
    if isinstance(t, tuple):
        return tuple(_rename(a, ren) for a in t)
    return t


def rule_rowgen(P) -> RuleResult:
    res = RuleResult('R-ROWGEN')
    res.exhaustive = True
    m = P.module(QE)
    SELF = Sym('TABLE')
    for cname, kind in (('EntriesTable', 'entries'), ('PostingsTable', 'postings')):
        ci = m.classes.get(cname)
        it = ci.methods.get('__iter__') if ci else None
        if it is None:
            raise AnalysisError(f'anchor vanished: {cname}.__iter__')
        construct = it.fq
        n0 = len(res.findings)
        for is_txn in (True, False):
            prepared = []

            def on_call(fname, fval, recv, args, kwargs, ex, node):
                last = str(fname).split('.')[-1]
                if last == 'prepare' and recv == SELF:
                    prepared.append(1)
                    return ENTRIES
                if last == 'Row':
                    return T('new', ('Row', args))
                return NotImplemented

            def on_isinstance(v, c, ex, _t=is_txn):
                return _t
            paths = Engine(P, on_call=on_call, on_isinstance=on_isinstance, inline_generators='lazy').paths(it, {'self': SELF})
            entry = T('elem', (ENTRIES,))
            what = 'a transaction' if is_txn else 'a directive that is not a transaction'
            for p in paths:
                if not prepared:
                    res.fail(construct, 'rowgen:prepare', f'{cname} must iterate the entries prepared by OPEN/CLOSE/CLEAR (self.prepare())', loc(it))
                    break
                ne = _nest_events(p)
                # sequences that only re-present another one: `(x for x in S if c)` walked as it is stands for S (under c), and
                # `enumerate(S, start)` for S with a counter; elements are renamed accordingly
                ren, starts = {}, {}

                def plain(seq):
                    while True:
                        if isinstance(seq, SList) and seq.origin is not None and seq.origin[1] == T('elem', (seq.origin[0],)):
                            ren[T('elem', (seq,))] = T('elem', (plain(seq.origin[0]),))
                            seq = plain(seq.origin[0])
                            continue
                        if isinstance(seq, T) and seq.op == 'call' and seq.args[0] == 'enumerate' and 1 <= len(seq.args[1]) <= 2:
                            inner = plain(_rename(seq.args[1][0], ren))
                            start = seq.args[1][1] if len(seq.args[1]) == 2 else dict(seq.args[2]).get('start', 0)
                            ren[T('elem', (seq, (1,)))] = T('elem', (inner,))
                            starts[T('elem', (seq, (0,)))] = (start, inner)
                            return inner
                        return _rename(seq, ren)
                # a comprehension filtered by a condition that is false in this scenario has no elements: what its loop body did on the
                # abstract element did not happen
                def dead(seq):
                    return isinstance(seq, SList) and seq.origin is not None and any(c is False for c in seq.origin[2])
                ne = [(st, e) for st, e in ne if not any(dead(x) for x in st)]
                ne = [(tuple(plain(x) for x in st), e) for st, e in ne]
                ne = [(st, (e[0], _rename(e[1], ren), {k: _rename(v, ren) for k, v in e[2].items()}) if e[0] == 'yield' else e) for st, e in ne]
                ys = [(st, e) for st, e in ne if e[0] == 'yield']
                if early_exits(p, ENTRIES):
                    res.fail(construct, 'rowgen:filter', f'{cname}: at {what} the generator stops scanning the entries: the rows of all '
                             f'later directives are lost', loc(it))
                    break
                if kind == 'entries':
                    good = [(st, e) for st, e in ys if st == (ENTRIES,)]
                    if len(ys) != 1 or len(good) != 1:
                        res.fail(construct, 'rowgen:filter' if not ys else 'rowgen:yield', f'the entries table must yield one row for every '
                                 f'directive, unfiltered; for {what} it yields {len(ys)} row(s)', loc(it))
                        break
                    snap = good[0][1][2]
                    if snap.get('entry') != entry:
                        res.fail(construct, 'rowgen:bind', f'the row context must hold the current directive (context.entry); it holds '
                                 f'`{show(snap.get("entry"))}`', loc(it))
                        break
                    ctx = good[0][1][1]
                    augs = [e for st, e in ne if e[0] == 'aug' and e[1] == T('attr', (ctx, 'rowid')) and st == (ENTRIES,)]
                    if [(e[2], e[3]) for e in augs] != [('+', 1)]:
                        res.fail(construct, 'rowgen:rowid', 'every row gets its own row id (context.rowid += 1 once per row)', loc(it))
                        break
                else:
                    postings = T('attr', (entry, 'postings'))
                    if not is_txn:
                        if ys:
                            res.fail(construct, 'rowgen:filter', f'postings rows come from transactions only; for {what} the generator yields '
                                     f'{len(ys)} row(s)', loc(it))
                            break
                        continue
                    good = [(st, e) for st, e in ys if st == (ENTRIES, postings)]
                    if len(ys) != 1 or len(good) != 1:
                        inner = [st[-1] for st, e in ys if len(st) == 2]
                        if ys and inner and inner[0] != postings:
                            res.fail(construct, 'rowgen:inner', f'the inner loop must range over the postings of the transaction; ranges over '
                                     f'`{show(inner[0])}`', loc(it))
                        else:
                            res.fail(construct, 'rowgen:yield', f'for {what} the generator must yield one row per posting; it yields {len(ys)} '
                                     f'row(s) at loop depth {[len(st) for st, e in ys]}', loc(it))
                        break
                    snap = good[0][1][2]
                    if snap.get('entry') != entry or snap.get('posting') != T('elem', (postings,)):
                        res.fail(construct, 'rowgen:bind', f'the row context must hold the current posting and its transaction; it holds entry='
                                 f'`{show(snap.get("entry"))}`, posting=`{show(snap.get("posting"))}`', loc(it))
                        break
                    ctx = good[0][1][1]
                    augs = [e for st, e in ne if e[0] == 'aug' and e[1] == T('attr', (ctx, 'rowid')) and st == (ENTRIES, postings)]
                    # or: the counter of enumerate(postings, context.rowid + 1) stored as the row id, once per posting
                    counted = [e for st, e in ne if e[0] == 'store' and e[1] == T('attr', (ctx, 'rowid')) and st == (ENTRIES, postings)
                               and e[2] in starts and starts[e[2]][1] == postings]
                    if len(counted) == 1 and not augs:
                        start = starts[counted[0][2]][0]
                        rid = T('attr', (ctx, 'rowid'))
                        if isinstance(start, T) and start.op == 'bin' and start.args[0] == '+' and set(start.args[1:]) == {rid, 1} or \
                                (isinstance(start, T) and start.op == 'bin' and start.args[0] == '+' and 1 in start.args[1:] and
                                 any(isinstance(x, T) and x.op == 'attr' and x.args[1] == 'rowid' for x in start.args[1:])):
                            continue
                    if [(e[2], e[3]) for e in augs] != [('+', 1)]:
                        res.fail(construct, 'rowgen:rowid', 'every posting row gets its own row id (context.rowid += 1 once per posting): '
                                 'the running balance relies on it', loc(it))
                        break
            if len(res.findings) > n0:
                break
        if len(res.findings) == n0:
            res.ok({'generator': it.fq, 'rows': 'one per directive' if kind == 'entries' else 'one per posting of every transaction',
                    'context': 'entry (and posting) bound, fresh rowid per row'})
    # typed directive tables
    sb = P.module(SB)
    base = sb.classes.get('Table')
    it = base.methods.get('__iter__') if base else None
    if it is None:
        raise AnalysisError('anchor vanished: sources.beancount.Table.__iter__')
    okt = True
    src = T('attr', (SELF, 'entries'))
    for inst in (True, False):
        asked = []

        def on_isinstance2(v, c, ex, _i=inst):
            asked.append((v, c))
            return _i
        for p in Engine(P, on_isinstance=on_isinstance2).paths(it, {'self': SELF}):
            ne = _nest_events(p)
            ys = [(st, e) for st, e in ne if e[0] == 'yield']
            if early_exits(p, src):
                okt = False
            want = 1 if inst else 0
            if len(ys) != want or any(st != (src,) or e[1] != T('elem', (src,)) for st, e in ys):
                okt = False
            if not asked or any(v != T('elem', (src,)) or c != T('attr', (SELF, 'datatype')) for v, c in asked):
                okt = False
    if okt:
        res.ok({'generator': it.fq, 'rows': 'every entry that is an instance of the table datatype, in ledger order'})
    else:
        res.fail(it.fq, 'rowgen:typed', 'a directive table yields exactly the entries that are instances of its datatype, in ledger order', loc(it))
    for cname, attr, meth, what in (('AccountsTable', 'accounts', 'items', 'account'), ('CommoditiesTable', 'commodities', 'values', 'commodity directive')):
        ci = sb.classes.get(cname)
        it = ci.methods.get('__iter__') if ci else None
        if it is None:
            raise AnalysisError(f'anchor vanished: {cname}.__iter__')
        want = T('call', (f'{show(T("attr", (SELF, attr)))}.{meth}', (), ()))
        good = False
        for p in Engine(P).paths(it, {'self': SELF}):
            v = p.value
            while isinstance(v, T) and v.op == 'call' and v.args[0] in ('iter', 'list', 'tuple') and len(v.args[1]) == 1:
                v = v.args[1][0]
            if v == want or (isinstance(v, SList) and v.origin is not None and v.origin[0] == want and not v.origin[2]):
                good = True
            ys = [(st, e) for st, e in _nest_events(p) if e[0] == 'yield']
            if len(ys) == 1 and ys[0][0] == (want,):
                good = True
        if good:
            res.ok({'generator': it.fq, 'rows': f'one per {what}'})
        else:
            res.fail(it.fq, f'rowgen:{attr}', f'the {attr} table yields one row per {what} of the ledger', loc(it))
    # the null table `#` (SELECT without FROM on a connection without ledger, constant expressions): exactly one row, NULL
    nt = P.module('beanquery.tables').classes.get('NullTable')
    it = nt.methods.get('__iter__') if nt else None
    if it is None:
        raise AnalysisError('anchor vanished: tables.NullTable.__iter__')
    for p in Engine(P).paths(it, {'self': SELF}):
        v = p.value
        ys = [e[1] for e in p.events if e[0] == 'yield']
        while isinstance(v, T) and v.op == 'call' and v.args[0] in ('iter', 'list', 'tuple') and len(v.args[1]) == 1:
            v = v.args[1][0]
        rows = ys if ys else (list(v.items) if isinstance(v, SList) and not v.opaque_tail else list(v.args) if isinstance(v, T) and v.op == 'tuple' else None)
        if p.decisions or rows != [None]:
            res.fail(it.fq, 'rowgen:null-table', f'the null table has exactly one row, NULL (SELECT 1 + 1 gives one row; count(*) over it is 1); '
                     f'its row generator gives `{show(p.value)[:60] if not ys else [show(y) for y in ys]}`', loc(it))
        else:
            res.ok({'generator': it.fq, 'rows': 'exactly one, NULL'})
    return res



# ----------------------------------------------------------------------
# the derivation of typed-table columns from a record's annotations (part of R-TABLEFIELDS)

def derivation_cases(P, fi, res):
    """_typed_namedtuple_to_columns(cls, renames): one column per annotated field, read from the field of that name, registered
    under the (renamed) column name, typed with the *class* under the annotation - Optional[...] and generic aliases are peeled
    as often as needed (Optional[frozenset[str]] -> frozenset).  The registry model assumes exactly this."""
    from ..symex import Raise
    CLS = Sym('RECORD')
    X, FS = Sym('class X'), Sym('class frozenset')
    UNION = T('global', ('typing.Union',))
    NONE_T = T('call', ('type', (None,), ()))
    # annotation -> (origin, args)
    ANN = {
        Sym('X'): (None, ()),
        Sym('Optional[X]'): (UNION, (X, NONE_T)),
        Sym('frozenset[str]'): (FS, (Sym('class str'),)),
        Sym('Optional[frozenset[str]]'): (UNION, (Sym('frozenset[str]'), NONE_T)),
        Sym('dict'): (None, ()),
    }
    ANN[X] = (None, ())
    ANN[FS] = (None, ())
    fields = [('plain', Sym('X'), Sym('X')), ('optional', Sym('Optional[X]'), X), ('generic', Sym('frozenset[str]'), FS),
              ('optional_generic', Sym('Optional[frozenset[str]]'), FS), ('renamed', Sym('X'), Sym('X'))]

    def on_call(fn, fv, rc, a, k, ex, nd):
        f = str(fn)
        last = f.split('.')[-1]
        if last == 'items' and isinstance(rc, T) and rc.op == 'call' and str(rc.args[0]).endswith('get_type_hints'):
            return SList([T('tuple', (n, ann)) for n, ann, _ in fields])
        if last == 'get_origin' and len(a) == 1:
            if a[0] not in ANN:
                return None
            return ANN[a[0]][0]
        if last == 'get_args' and len(a) == 1:
            return T('tuple', ANN.get(a[0], (None, ()))[1])
        if last == 'type' and a == (None,):
            return NONE_T
        if last == 'GetAttrColumn':
            return T('new', ('GetAttrColumn', a))
        return NotImplemented

    def oracle(term, ex):
        if isinstance(term, T) and term.op == 'cmp' and term.args[0] in ('is', 'is not'):
            l, r = term.args[1], term.args[2]
            if NONE_T in (l, r) or UNION in (l, r):
                eq = l == r
                return eq if term.args[0] == 'is' else not eq
            if T('global', ('dict',)) in (l, r):
                return term.args[0] == 'is not'
        return None
    renames = SList([('renamed', 'new_name')], kind='dict')
    env = {fi.params[0]: CLS}
    if len(fi.params) > 1:
        env[fi.params[1]] = renames
    ok = True
    paths = Engine(P, on_call=on_call, oracle=oracle, max_unroll=5, globals_={'dict': T('global', ('dict',))}).paths(fi, env)
    for p in paths:
        if any(e[0] == 'loop-cut' for e in p.events):
            continue
        v = p.value
        cols = dict(v.items) if isinstance(v, SList) and v.kind == 'dict' and not v.opaque_tail else None
        if p.outcome != 'return' or cols is None:
            ok = False
            res.fail(fi.fq, 'tablefields:derivation', f'the derivation must return the dict of columns; {p.outcome} `{show(v)[:80]}`'
                     + (f' under `{show(p.decisions[0][0])[:60]}`' if p.decisions else ''), loc(fi))
            continue
        for name, ann, want_t in fields:
            col = 'new_name' if name == 'renamed' else name
            got = cols.get(col)
            want = T('new', ('GetAttrColumn', (name, want_t)))
            if got != want:
                ok = False
                res.fail(fi.fq, 'tablefields:derivation', f'field `{name}` annotated {ann.name}: the column `{col}` must be GetAttrColumn('
                         f'{name!r}, {want_t.name}) - read from the field of that name, typed with the class under the annotation; got '
                         f'`{show(got)[:100]}`', loc(fi))
    if ok and paths:
        res.ok({'function': fi.fq, 'accessor_reads': 'the field name of the record', 'registered_under': 'the renamed column name',
                'annotations': [a.name for _, a, _ in fields]})


# ----------------------------------------------------------------------
# R-ATTACH (C11, C19): attaching a ledger binds every table name to a table over that ledger

def rule_attach(P) -> RuleResult:
    """sources.beancount.attach on terms, for a dsn with and without a file name: for every class in TABLES the name of the table is
    bound (by a plain item store: whatever was bound before is replaced) to a new table built from the entries and options of *this*
    attach - the loaded ones when the dsn names a file, the arguments otherwise - and the connection's options and errors receive the
    options and errors of the same ledger.  A second attach (the shell's .reload, Connection.attach) therefore presents the new ledger."""
    res = RuleResult('R-ATTACH')
    res.exhaustive = True
    fi = P.func('beanquery.sources.beancount', 'attach')
    C = Sym('CONTEXT')
    args = {'context': C, 'dsn': Sym('DSN'), 'entries': Sym('ENTRIES'), 'errors': Sym('ERRORS'), 'options': Sym('OPTIONS')}
    if fi.params[:5] != list(args):
        raise AnalysisError(f'{fi.fq}: parameters changed: {fi.params}')
    n = 0
    for p in Engine(P, inline_generators='lazy').paths(fi, dict(args)):
        if p.outcome == 'raise':
            continue
        n += 1
        loaded = [e for e in p.events if e[0] == 'call' and str(e[1]).endswith('load_file')]
        if loaded:
            ld = T('call', (loaded[0][1], loaded[0][2], loaded[0][3]))
            ent, err, opt = (T('item', (ld, i)) for i in range(3))
            case = 'dsn names a file'
        else:
            ent, err, opt = args['entries'], args['errors'], args['options']
            case = 'ledger given as arguments'
        depth = 0
        bound = []
        other_writes = []
        for e in p.events:
            if e[0] == 'loop-begin':
                depth += 1 if 'TABLES' in show(e[1]) else 0
            elif e[0] == 'loop-end':
                depth -= 1 if 'TABLES' in show(e[1]) else 0
            elif e[0] == 'store' and isinstance(e[1], T) and e[1].op == 'item' and e[1].args[0] == T('attr', (C, 'tables')):
                bound.append((depth, e[1].args[1], e[2]))
            elif e[0] == 'call' and str(e[1]).startswith('CONTEXT.tables.'):
                other_writes.append(str(e[1]))
        ok = True
        good = [b for b in bound if b[0] > 0 and isinstance(b[1], T) and b[1].op == 'attr' and b[1].args[1] == 'name'
                and isinstance(b[2], T) and b[2].op == 'call' and b[2].args[0] == show(b[1].args[0]) and tuple(b[2].args[1]) == (ent, opt) and not b[2].args[2]]
        if not good:
            ok = False
            what = f'calls {other_writes}' if other_writes else f'stores {[(show(k)[:40], show(v)[:60]) for _, k, v in bound]}'
            res.fail(fi.fq, 'attach:bind', f'attach ({case}) must bind, for each class in TABLES, context.tables[table.name] = table(entries, '
                     f'options) with the entries and options of this ledger, replacing what was bound before; it {what}: after a second '
                     f'attach (.reload, Connection.attach) the tables still present the first ledger, or another one', loc(fi))
        # the ledger handed in belongs to the caller (and to every other connection made from the same list)
        MUT = ('sort', 'reverse', 'append', 'extend', 'insert', 'pop', 'remove', 'clear', 'update', 'setdefault', 'popitem', '__setitem__', '__delitem__')
        for e in p.events:
            hit = None
            if e[0] == 'call' and isinstance(e[1], str) and e[1].rsplit('.', 1)[-1] in MUT and e[1].rsplit('.', 1)[0] in ('ENTRIES', 'OPTIONS', 'ERRORS'):
                hit = e[1] + '()'
            elif e[0] in ('store', 'delete') and isinstance(e[1], T) and e[1].op in ('item', 'attr', 'slice') and e[1].args[0] in tuple(args.values())[2:]:
                hit = show(e[1])
            if hit:
                ok = False
                res.fail(fi.fq, 'attach:input', f'attach ({case}) changes the ledger it was given (`{hit[:60]}`): the list belongs to the caller, and '
                         f'every connection already made from it - possibly executing a statement in another thread right now - iterates that very list', loc(fi))
                break
        calls = {str(e[1]): e[2] for e in p.events if e[0] == 'call'}
        if tuple(calls.get('CONTEXT.options.update', ())) != (opt,):
            ok = False
            res.fail(fi.fq, 'attach:options', f'attach ({case}) must update the connection options with the options of this ledger; '
                     f'got `{show(calls.get("CONTEXT.options.update"))[:80]}`', loc(fi))
        if tuple(calls.get('CONTEXT.errors.extend', ())) != (err,):
            ok = False
            res.fail(fi.fq, 'attach:errors', f'attach ({case}) must add the errors of this ledger to the connection; '
                     f'got `{show(calls.get("CONTEXT.errors.extend"))[:80]}`', loc(fi))
        if ok:
            res.ok({'case': case, 'binds': 'context.tables[table.name] = table(entries, options) for every class in TABLES',
                    'options': 'updated from this ledger', 'errors': 'extended from this ledger'})
    if n < 2:
        raise AnalysisError(f'{fi.fq}: expected the two cases (file name present / absent) on terms, found {n}')
    return res


# ----------------------------------------------------------------------
# R-TYPEDCOLS (C11): the columns of the typed tables and structures read the field they are named after

def rule_typedcols(P) -> RuleResult:
    """sources.beancount on terms.  GetAttrColumn(name, dtype) evaluates to the attribute `name` of the row it is given, and
    GetItemColumn(key, dtype) to item `key`; _typed_namedtuple_to_columns(cls, renames) makes one column per annotated field, in field
    order, published under renames.get(field, field), reading *that field* (not the published name), announced with the field's type -
    Optional[T] unwrapped to T, a parametrised generic to its origin, the `meta` dict to Metadata."""
    res = RuleResult('R-TYPEDCOLS')
    res.exhaustive = True
    m = P.module('beanquery.sources.beancount')
    ROW, SELF = Sym('ROW'), Sym('COLUMN')
    for cname, field, want in (('GetAttrColumn', 'name', lambda v, key: v in (T('call', ('getattr', (ROW, key), ())), T('attr', (ROW, key)))),
                               ('GetItemColumn', 'key', lambda v, key: v == T('item', (ROW, key)) or v == T('call', (f'{show(ROW)}.__getitem__', (key,), ())))):
        ci = m.classes.get(cname)
        if ci is None or '__init__' not in ci.methods or '__call__' not in ci.methods:
            raise AnalysisError(f'anchor vanished: sources.beancount.{cname}')
        init, call = ci.methods['__init__'], ci.methods['__call__']
        KEY, DT = Sym('KEY'), Sym('DTYPE')
        heap = {}
        supers = []

        def on_call_i(fn, fv, rc, a, k, ex, nd):
            if str(fn).endswith('__init__'):
                supers.append(tuple(a))
                return None
            return NotImplemented
        for p in Engine(P, on_call=on_call_i, max_depth=0).paths(init, {'self': SELF, init.params[1]: KEY, init.params[2]: DT}):
            heap.update(p.heap)

        def on_attr(base, attr, ex, _h=heap):
            v = _h.get(T('attr', (base, attr)))
            return v if v is not None else NotImplemented
        ok = True
        if not supers or DT not in supers[-1]:
            ok = False
            res.fail(init.fq, 'typedcols:dtype', f'{cname}(key, dtype) must announce dtype (pass it to the column base class); it passes '
                     f'{[show(x) for x in (supers[-1] if supers else ())]}', loc(init))
        for p in Engine(P, on_attr=on_attr).paths(call, {'self': SELF, call.params[1]: ROW}):
            if p.outcome != 'return' or p.decisions or not want(p.value, KEY):
                ok = False
                res.fail(call.fq, 'typedcols:access', f'{cname}(key, dtype) evaluated on a row is '
                         f'{"the attribute" if cname == "GetAttrColumn" else "the item"} `key` of that row; it gives `{show(p.value)[:80]}`', loc(call))
        if ok:
            res.ok({'class': cname, 'value': 'getattr(row, key)' if cname == 'GetAttrColumn' else 'row[key]', 'announces': 'the dtype given'})
    fi = m.toplevel_funcs.get('_typed_namedtuple_to_columns')
    if not fi:
        raise AnalysisError('anchor vanished: _typed_namedtuple_to_columns')
    fi = fi[-1]
    TA, OPTB, TB, NT, GEN, ORIGIN = Sym('TYPE_A'), Sym('OPTIONAL_TYPE_B'), Sym('TYPE_B'), Sym('NONETYPE'), Sym('GENERIC_OF_X'), Sym('ORIGIN_OF_GENERIC')
    UNION = T('global', ('typing.Union',))
    DICT = T('global', ('dict',))
    CLS = Sym('NAMEDTUPLE')

    def on_call(fn, fv, rc, a, k, ex, nd):
        f = str(fn)
        if f.endswith('get_type_hints'):
            return SList([('field_a', TA), ('field_b', OPTB), ('field_c', GEN), ('meta', DICT)], kind='dict')
        if f.endswith('get_origin'):
            return {OPTB: UNION, GEN: ORIGIN}.get(a[0])
        if f.endswith('get_args'):
            return T('tuple', (TB, NT)) if a[:1] == (OPTB,) else T('tuple', ())
        if f == 'type' and tuple(a) == (None,):
            return NT
        if f.split('.')[-1] == 'GetAttrColumn':
            return T('new', ('GetAttrColumn', tuple(a) + tuple(v for _, v in k)))
        return NotImplemented

    def oracle(t, ex):
        if isinstance(t, T) and t.op == 'cmp' and t.args[0] in ('is', 'is not') and UNION in t.args[1:]:
            other = t.args[1] if t.args[2] == UNION else t.args[2]
            same = other == UNION
            return same if t.args[0] == 'is' else not same
        if isinstance(t, T) and t.op == 'cmp' and t.args[0] in ('is', 'is not', '==', '!=') and DICT in t.args[1:]:
            other = t.args[1] if t.args[2] == DICT else t.args[2]
            same = other == DICT
            return same if t.args[0] in ('is', '==') else not same
        return None
    for ren_label, ren in (('no renames', None), ('field_a published as renamed_a', SList([('field_a', 'renamed_a')], kind='dict'))):
        name_a = 'renamed_a' if ren is not None else 'field_a'
        want = [(name_a, T('new', ('GetAttrColumn', ('field_a', TA)))), ('field_b', T('new', ('GetAttrColumn', ('field_b', TB)))),
                ('field_c', T('new', ('GetAttrColumn', ('field_c', ORIGIN)))), ('meta', None)]
        n = 0
        for p in Engine(P, on_call=on_call, oracle=oracle, max_paths=16).paths(fi, {fi.params[0]: CLS, fi.params[1]: ren}):
            n += 1
            v = p.value
            items = list(v.items) if isinstance(v, SList) and v.kind == 'dict' and not v.opaque_tail else None
            good = p.outcome == 'return' and not p.decisions and items is not None and len(items) == 4 and items[:3] == want[:3] and \
                items[3][0] == 'meta' and isinstance(items[3][1], T) and items[3][1].op == 'new' and items[3][1].args[1][:1] == ('meta',) and \
                gname(items[3][1].args[1][1]).split('.')[-1] == 'Metadata'
            if good:
                res.ok({'function': fi.fq, 'case': ren_label, 'columns': [k for k, _ in items]})
            else:
                res.fail(fi.fq, 'typedcols:columns', f'{ren_label}: a structure with the fields field_a: A, field_b: Optional[B], field_c: G[X], meta: dict must '
                         f'get the columns {name_a} -> field_a: A, field_b -> field_b: B, field_c -> field_c: origin of G, meta -> meta: Metadata, in this order; '
                         f'got `{show(v)[:300]}`' + (f' under {[show(t)[:40] for t, _ in p.decisions][:2]}' if p.decisions else ''), loc(fi))
                break
        if n == 0:
            raise AnalysisError(f'{fi.fq}: no path on terms')
    return res


# ----------------------------------------------------------------------
# R-TABLESOURCE (C11): the tables that are not plain directive lists are built from the ledger with beancount's own getters

# what each constructor keeps on the table, as a function of (entries, options); row generators read exactly these attributes
TABLE_SOURCES = {
    'AccountsTable': {'accounts': 'get_account_open_close(entries)', 'types': 'parser.options.get_account_types(options)'},
    'CommoditiesTable': {'commodities': 'get_commodity_directives(entries)'},
    'PricesTable': {'price_map': 'prices.build_price_map(entries)', 'entries': 'entries', 'options': 'options'},
    'Table': {'entries': 'entries', 'options': 'options'},
}
TYPED_TABLES = {'transactions': 'Transaction', 'prices': 'Price', 'balances': 'Balance', 'notes': 'Note', 'events': 'Event',
                'documents': 'Document'}
TABLE_ROWS = {
    # the rows each of these tables presents, as a term over the kept attributes
    'AccountsTable': 'accounts',        # one row (name, open, close) per item of the account map
    'CommoditiesTable': 'commodities',  # the values of the commodity map
}


def rule_tablesource(P) -> RuleResult:
    """sources.beancount on terms: AccountsTable keeps getters.get_account_open_close(entries) - beancount's own account map: every
    account that is opened *or* closed, with its *first* Open - and the account types of the ledger's options; CommoditiesTable keeps
    getters.get_commodity_directives(entries); PricesTable keeps prices.build_price_map(entries) next to the entries; the typed tables
    keep the entries and options they are given.  The row generators of the two map-backed tables walk that very map."""
    from ..symex import canon
    from .sx_library import _resolve_names
    res = RuleResult('R-TABLESOURCE')
    res.exhaustive = True
    m = P.module('beanquery.sources.beancount')
    SELF, ENT, OPT = Sym('TABLE'), Sym('ENTRIES'), Sym('OPTIONS')
    for cname, want in TABLE_SOURCES.items():
        ci = m.classes.get(cname)
        init = ci.methods.get('__init__') if ci else None
        if init is None:
            raise AnalysisError(f'anchor vanished: sources.beancount.{cname}.__init__')
        # the constructor (with the base constructors it calls) on terms
        heap = {}
        n = 0
        for p in Engine(P, max_depth=3).paths(init, {'self': SELF, init.params[1]: ENT, init.params[2]: OPT}):
            n += 1
            if p.outcome == 'raise' or p.decisions:
                res.fail(init.fq, 'tablesource:shape', f'{cname}(entries, options) must build the table unconditionally; it '
                         f'{"raises " + str(p.value[0]) if p.outcome == "raise" else "branches on " + show(p.decisions[0][0])[:50]}', loc(init))
                continue
            heap = p.heap
        if n == 0:
            raise AnalysisError(f'{init.fq}: no path on terms')
        good = True
        for attr, src in want.items():
            dnode = ast.parse(f'def _d(entries, options):\n    return {src}').body[0]
            dp = Engine(P).paths(dnode, {'entries': ENT, 'options': OPT, '__fi__': init})
            w = repr(_resolve_names(canon(dp[0].value), init.module))
            g = heap.get(T('attr', (SELF, attr)))
            if g is None or repr(_resolve_names(canon(g), init.module)) != w:
                good = False
                res.fail(init.fq, f'tablesource:{attr}', f'{cname} keeps `{attr} = {src}` - beancount\'s own reading of the ledger; found '
                         f'`{show(g)[:120] if g is not None else "nothing"}`', loc(init))
        if good:
            res.ok({'table': cname, 'keeps': want})
    # the typed tables list the directives of the type their name says
    seen_names = {}
    for cname, ci in m.classes.items():
        nm, dt = ci.attrs.get('name'), ci.attrs.get('datatype')
        if not (isinstance(nm, ast.Constant) and isinstance(nm.value, str)) or dt is None or (isinstance(dt, ast.Constant) and dt.value is None):
            continue
        d = ci.module.dotted(dt) or ast.unparse(dt)
        seen_names[nm.value] = d.split('.')[-1]
    for tname, dtype in TYPED_TABLES.items():
        got = seen_names.get(tname)
        if got is None:
            res.fail(f'{m.name}:#{tname}', 'tablesource:typed', f'the table #{tname} (directives of type {dtype}) is not defined', '')
        elif got != dtype:
            res.fail(f'{m.name}:#{tname}', 'tablesource:typed', f'the table #{tname} lists the directives of type {dtype}; it is declared with '
                     f'datatype {got}', '')
        else:
            res.ok({'table': '#' + tname, 'lists': f'directives of type {dtype}, in ledger order'})
    for cname, attr in TABLE_ROWS.items():
        ci = m.classes[cname]
        it = ci.methods.get('__iter__')
        if it is None:
            raise AnalysisError(f'anchor vanished: sources.beancount.{cname}.__iter__')
        MAP = Sym('THE_MAP')

        def on_attr(base, a, ex, _attr=attr):
            if base == SELF and a == _attr:
                return MAP
            return NotImplemented
        srcs = set()
        for p in Engine(P, on_attr=on_attr, inline_generators=True).paths(it, {'self': SELF}):
            from ..symex import walk_terms
            vals = [p.value] + [e[1] for e in p.events if e[0] in ('yield', 'loop-begin')]
            for v in vals:
                for x in walk_terms(v):
                    if isinstance(x, T) and x.op == 'attr' and x.args[0] == SELF:
                        srcs.add(x.args[1])
                    if x == MAP:
                        srcs.add(attr)
                if 'THE_MAP' in show(v) or (isinstance(v, SList) and getattr(v, 'source', None) is not None and 'THE_MAP' in show(v.source)):
                    srcs.add(attr)          # a method call on the map: the receiver is part of the printed callee
            for e in p.events:
                if e[0] == 'call' and 'THE_MAP' in str(e[1]):
                    srcs.add(attr)
        if srcs != {attr}:
            res.fail(it.fq, 'tablesource:rows', f'the rows of {cname} are the items of `self.{attr}`; the row generator reads {sorted(srcs) or "nothing"}', loc(it))
        else:
            res.ok({'table': cname, 'rows_from': f'self.{attr}'})
    return res
