"""R-AGGCLASS on the term interpreter (C02, C12): every aggregate class folds its operand into its own store slot the way its name says.

For each registered aggregate, `update(store, row)` is interpreted for every combination of operand value class (NULL, zero/empty,
other), slot state (NULL, zero/empty, other), ordering outcome (value <, ==, > current) and answer to a state query asked of the
accumulator; what is decided is the final state of the slot and the mutations applied to the accumulator object, so aliases,
helper methods, conditional expressions and min()/max() idioms do not matter.  initialize / finalize / __call__ are interpreted
the same way."""
from __future__ import annotations

from beancount.core import amount, position, inventory

from ..symex import Sym, Falsy, T, SList, Engine, Raise, show, canon
from ..loader import AnalysisError, FuncInfo, loc
from ..report import RuleResult
from .. import registry
from ..registry import tname

NODE, STORE, ROW = Sym('AGGREGATE_NODE'), Sym('STORE'), Sym('ROW')
HANDLE = T('attr', (NODE, 'handle'))
SLOT = T('item', (STORE, HANDLE))
VAL, VALZ = Sym('VALUE'), Falsy('VALUE0')
CUR, CURZ = Sym('CURRENT'), Falsy('CURRENT0')
OPERAND0 = T('item', (T('attr', (NODE, 'operands')), 0))
MUTATOR_FOR = {amount.Amount: 'add_amount', position.Position: 'add_position', inventory.Inventory: 'add_inventory'}


class _Case:
    def __init__(self, value, slot, order, answer):
        self.value, self.slot, self.order, self.answer = value, slot, order, answer
        self.reads = 0
        self.queries = 0
        self.null_compares = []
        self.muts = []

    def label(self):
        v = 'NULL' if self.value is None else 'zero/empty' if self.value is VALZ else 'non-NULL'
        s = 'NULL' if self.slot is None else 'zero/empty' if self.slot is CURZ else 'set'
        return f'value {v}, current {s}, value {dict(lt="<", eq="==", gt=">")[self.order]} current'


def _run(P, fi, case, params):
    isv = lambda x: x is VAL or x is VALZ or x == VAL or x == VALZ
    isc = lambda x: x == CUR or x == CURZ

    def on_item(base, i, ex):
        if base == STORE and i == HANDLE:
            return case.slot
        return NotImplemented

    def rel(l, r):
        if isv(l) and isc(r):
            return case.order
        if isc(l) and isv(r):
            return {'lt': 'gt', 'gt': 'lt', 'eq': 'eq'}[case.order]
        if l == r:
            return 'eq'
        return None

    def on_call(fn, fv, rc, args, kw, ex, node):
        name = str(fn)
        if fv == OPERAND0 and args == (ROW,):
            case.reads += 1
            return case.value
        if name in ('min', 'max') and len(args) == 2 and not kw:
            a, b = args
            if a is None or b is None:
                case.null_compares.append(name)
                raise Raise('TypeError', ('ordering with NULL',))
            r = rel(b, a)           # min(a, b) returns b iff b < a
            if r is None:
                raise AnalysisError(f'{name}() between unexpected operands {show(a)}, {show(b)}')
            if r == 'eq':
                return a
            return b if r == ('lt' if name == 'min' else 'gt') else a
        import ast as _ast
        if isinstance(node.func, _ast.Attribute) and (rc is None or isc(rc)):
            meth = node.func.attr
            if rc is None:
                raise Raise('AttributeError', (meth,))
            if not args and not kw:
                case.queries += 1
                return case.answer
            case.muts.append((meth, tuple(args)))
            return None
        return NotImplemented

    def oracle(term, ex):
        if isinstance(term, T) and term.op == 'cmp':
            op, l, r = term.args
            if op in ('<', '>', '<=', '>='):
                if l is None or r is None:
                    case.null_compares.append(op)
                    return False
                q = rel(l, r)
                if q is None:
                    return None
                return {'<': q == 'lt', '>': q == 'gt', '<=': q in ('lt', 'eq'), '>=': q in ('gt', 'eq')}[op]
            if op in ('==', '!='):
                q = rel(l, r)
                if q is not None:
                    return (q == 'eq') == (op == '==')
        return None
    env = {'self': NODE}
    for p_, v in zip(fi.params[1:], params):
        env[p_] = v
    paths = Engine(P, on_item=on_item, on_call=on_call, oracle=oracle, max_depth=2).paths(fi, env)
    if len(paths) != 1:
        und = [show(t)[:50] for p in paths for t, _ in p.decisions][:2]
        raise AnalysisError(f'{fi.fq}: {len(paths)} paths for one case ({case.label()}): undecided {und}')
    return paths[0]


def _final(p, case):
    """(final slot value, other stores) of a path."""
    final = p.heap.get(SLOT, case.slot)
    other = [e[1] for e in p.events if e[0] in ('store', 'aug') and e[1] != SLOT]
    return final, other


def rule_aggclass(P) -> RuleResult:
    res = RuleResult('R-AGGCLASS')
    res.exhaustive = True
    reg = registry.get(P)
    aggs = [f for f in reg.funcs if f.kind == 'aggregator']
    if not aggs:
        raise AnalysisError('anchor vanished: no aggregate functions registered')
    for f in aggs:
        ci = f.cls.info
        construct = f'aggregate:{f.label}'
        upd, ini, fin, call = (P.find_method(ci, m) for m in ('update', 'initialize', 'finalize', '__call__'))
        if not all(isinstance(x, FuncInfo) for x in (upd, ini, fin, call)):
            raise AnalysisError(f'{ci.fq}: aggregator protocol methods not found')
        where = loc(upd)
        n0 = len(res.findings)

        def fail(detail, msg):
            res.fail(construct, 'aggclass:' + detail, f'{f.label} ({ci.name}): {msg}', where)
        cases = []
        for value in (None, VAL, VALZ):
            for slot in (None, CUR, CURZ):
                for order in ('lt', 'eq', 'gt'):
                    c = _Case(value, slot, order, True)
                    try:
                        p = _run(P, upd, c, (STORE, ROW))
                    except AnalysisError as exc:
                        raise AnalysisError(f'{ci.fq}.update: {exc}') from exc
                    cases.append((c, p))
                    if c.queries:
                        c2 = _Case(value, slot, order, False)
                        cases.append((c2, _run(P, upd, c2, (STORE, ROW))))
        name = f.name
        is_star = name == 'count' and f.intypes[0] is registry.ASTERISK
        mut = MUTATOR_FOR.get(f.intypes[0]) if name == 'sum' else None
        for c, p in cases:
            if len(res.findings) > n0:
                break
            final, other = _final(p, c)
            if c.null_compares:
                # a slot that is NULL only when the aggregate starts from a zero is not a reachable state; judged below with initialize
                if c.slot is None and name in ('count', 'sum'):
                    continue
                fail('null-order', f'a NULL value (or an empty slot) reaches an ordering comparison in update() ({c.label()}): TypeError at run time')
                continue
            if other:
                own = [o for o in other if isinstance(o, T) and o.op == 'attr' and o.args[0] == NODE]
                fail('isolation', (f'update() writes `{show(own[0])}`: state kept on the node leaks between groups' if own else
                                   f'update() writes `{show(other[0])}` instead of its own slot store[self.handle]'))
                continue
            if p.outcome == 'raise':
                if c.slot is None and name in ('count', 'sum'):
                    continue        # unreachable slot state for an aggregate that starts from its zero
                fail('fold', f'update() raises {p.value[0]} ({c.label()})')
                continue
            unchanged = final is c.slot or final == c.slot
            if name == 'count':
                want_inc = True if is_star else c.value is not None
                if is_star and c.reads:
                    fail('fold', 'count(*) counts rows and must not depend on an operand')
                elif c.slot is None:
                    continue
                elif c.muts or (want_inc and canon(final) != canon(T('bin', ('+', c.slot, 1)))) or (not want_inc and not unchanged):
                    fail('fold', f'count{"(*)" if is_star else "(x)"} must add 1 for every {"row" if is_star else "non-NULL value"} and nothing '
                         f'otherwise: {c.label()} leaves the slot at `{show(final)}`' + (f' after {c.muts}' if c.muts else ''))
            elif name == 'sum':
                if c.slot is None:
                    continue
                if c.value is None:
                    if not unchanged or c.muts:
                        fail('fold', f'sum skips NULL values: {c.label()} leaves `{show(final)}`' + (f' after {c.muts}' if c.muts else ''))
                elif mut:
                    if c.muts != [(mut, (c.value,))] or not unchanged:
                        what = f'rebinds the slot to `{show(final)}`' if not unchanged else f'applies {c.muts or "nothing"}'
                        fail('fold', f'sum over {tname(f.intypes[0])} adds every non-NULL value into the accumulator of its group with {mut}(): '
                             f'{c.label()}' + (f', accumulator query answered {c.answer}' if c.queries else '') + f': update() {what} '
                             f'(an accumulator that is the operand object itself is shared with the row and with other aggregates)')
                elif c.muts or canon(final) != canon(T('bin', ('+', c.slot, c.value))):
                    fail('fold', f'sum over {tname(f.intypes[0])} adds non-NULL values with +: {c.label()} leaves `{show(final)}`')
            elif name in ('min', 'max'):
                better = 'lt' if name == 'min' else 'gt'
                if c.value is None:
                    ok = unchanged
                elif c.slot is None or c.order == better:
                    ok = final is c.value or final == c.value
                elif c.order == 'eq':
                    ok = unchanged or final == c.value
                else:
                    ok = unchanged
                if not ok or c.muts:
                    fail('fold', f'{name} keeps the {"smallest" if name == "min" else "largest"} non-NULL value: {c.label()} leaves '
                         f'`{show(final)}`')
            elif name == 'first':
                ok = (final is c.value or final == c.value or (c.value is None and final is None)) if c.slot is None else unchanged
                if not ok or c.muts:
                    fail('fold', f'first keeps the first non-NULL value and never overwrites it: {c.label()} leaves `{show(final)}`')
            elif name == 'last':
                if not (final is c.value or final == c.value) or c.muts:
                    fail('fold', f'last takes the value of every row in turn: {c.label()} leaves `{show(final)}`')
        if name not in ('count', 'sum', 'min', 'max', 'first', 'last'):
            res.info(f'new-instance: aggregate {f.label} has no contract on record (isolation checked only)')
        # --- initialize: a fresh start value per group, bound to the slot once
        init_kind = None
        for p in Engine(P, max_depth=2).paths(ini, {'self': NODE, ini.params[1]: STORE}):
            stores = [e for e in p.events if e[0] == 'store' and e[1] == SLOT]
            if p.decisions or len(stores) != 1:
                fail('initialize', 'initialize() must bind store[self.handle] exactly once')
                break
            v = stores[0][2]
            if v is None:
                init_kind = 'null'
            elif isinstance(v, T) and v.op == 'call' and v.args[0] == show(T('attr', (NODE, 'dtype'))) and not v.args[1]:
                init_kind = 'zero'
            elif isinstance(v, T) and v.op in ('call', 'new') or (isinstance(v, SList) and not v.items):
                init_kind = 'fresh'
            elif isinstance(v, (int, str, bool)):
                init_kind = 'const'
            else:
                fail('initialize', f'initialize() binds the slot to `{show(v)}`, an object shared between groups; each group needs a '
                     f'fresh value')
        if init_kind is not None and len(res.findings) == n0:
            want_kind = 'zero' if name in ('count', 'sum') else 'null' if name in ('min', 'max', 'first', 'last') else init_kind
            if init_kind != want_kind:
                fail('zero', (f'{name} starts from the zero of its accumulator type (self.dtype())' if want_kind == 'zero' else
                              f'{name} of no value is NULL: the slot must start as None'))
        # --- finalize / __call__: the value of this group's slot
        if len(res.findings) == n0:
            c0 = _Case(VAL, CUR, 'gt', True)
            pf = _run(P, fin, c0, (STORE,))
            kept = pf.heap.get(T('attr', (NODE, 'value')))
            pc = Engine(P, on_attr=lambda b, a, ex: kept if (b, a) == (NODE, 'value') else NotImplemented, max_depth=1).paths(call, {'self': NODE, call.params[1]: ROW})
            if kept != CUR or c0.muts:
                fail('finalize', f'finalize() must keep the value of this group\'s slot (store[self.handle]); it keeps `{show(kept)}`')
            elif len(pc) != 1 or pc[0].value != CUR:
                fail('finalize', f'the aggregate node must evaluate to the finalized value of its group; it gives `{show(pc[0].value) if pc else "?"}`')
            else:
                # a group whose slot ends NULL (min / max / first of NULLs only, last with a NULL last row): the node - one object
                # for all groups - must not go on showing the value it finalized for the previous group
                cn = _Case(VAL, None, 'gt', True)
                pn = _run(P, fin, cn, (STORE,))
                MISSING = Sym('VALUE_FINALIZED_FOR_THE_PREVIOUS_GROUP')
                keptn = pn.heap.get(T('attr', (NODE, 'value')), MISSING)
                if keptn is not None:
                    fail('finalize-null', f'finalize() of a group whose slot holds NULL must make the node NULL; the node keeps '
                         f'`{show(keptn)}`: the group reports the aggregate of the group output before it')
        if len(res.findings) == n0:
            res.ok({'aggregate': f.label, 'class': ci.name, 'cases': len(cases), 'initial': init_kind})
    return res
