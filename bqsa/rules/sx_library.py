"""R-DEFN on the term interpreter: the definitional functions of the scalar library return, on every path, the term of
their one-line definition (locals, helpers and statement order do not matter; an extra path with another result does)."""
from __future__ import annotations

import ast

from .. import registry
from ..symex import Sym, T, SList, Engine, show, canon
from ..loader import AnalysisError, loc
from ..report import RuleResult
from .library_rules import DEFINITIONS


def _resolve_names(c, module):
    """Canonical terms with the names of called globals resolved through the module's imports."""
    if isinstance(c, tuple):
        if len(c) == 4 and c[0] == 'call' and isinstance(c[1], str):
            name = c[1]
            try:
                e = ast.parse(name, mode='eval').body
                if isinstance(e, (ast.Name, ast.Attribute)):
                    d = module.dotted(e)
                    if d:
                        name = d.replace('builtins.', '')
            except SyntaxError:
                pass
            return ('call', name, _resolve_names(c[2], module), _resolve_names(c[3], module))
        if len(c) == 2 and c[0] == 'global' and isinstance(c[1], str):
            try:
                d = module.dotted(ast.parse(c[1], mode='eval').body)
            except SyntaxError:
                d = None
            return ('global', d or c[1])
        return tuple(_resolve_names(x, module) for x in c)
    return c


def rule_defn(P) -> RuleResult:
    res = RuleResult('R-DEFN')
    res.exhaustive = True
    reg = registry.get(P)
    m = P.module('beanquery.query_env')
    seen = set()
    for f in reg.funcs:
        if f.kind != 'function' or f.impl is None or f.name not in DEFINITIONS or (f.name, f.impl.fq) in seen:
            continue
        seen.add((f.name, f.impl.fq))
        fi = f.impl
        off = 1 if (f.pass_context or f.pass_row) else 0
        params = fi.params[off:]
        env = {p: Sym(f'p{i}') for i, p in enumerate(params)}
        for p in fi.params[:off]:
            env[p] = Sym('CONTEXT')
        # the definition, interpreted in the same module
        dnode = ast.parse(f'def _definition({", ".join(f"p{i}" for i in range(6))}):\n    return {DEFINITIONS[f.name]}').body[0]
        denv = {f'p{i}': Sym(f'p{i}') for i in range(6)}
        denv['__fi__'] = fi
        dpaths = Engine(P).paths(dnode, denv)
        want = _resolve_names(canon(dpaths[0].value), fi.module)
        construct = f'function:{f.name}'
        paths = Engine(P).paths(fi, env)
        bad = None
        for p in paths:
            if p.outcome == 'raise':
                continue        # argument validation (ValueError and the like) is outside the definition
            got = _resolve_names(canon(p.value), fi.module)
            if got != want:
                bad = p
                break
        if bad is None:
            res.ok({'function': f.name, 'definition': DEFINITIONS[f.name], 'paths': len(paths)})
        else:
            cond = f' when `{" and ".join(("" if o else "not ") + show(t)[:50] for t, o in bad.decisions)}`' if bad.decisions else ''
            res.fail(construct, 'defn:changed', f'{f.name}({", ".join(params)}) is defined as `{DEFINITIONS[f.name]}` '
                     f'(p0, p1, ... = its arguments); the implementation returns `{show(bad.value)[:100]}`{cond}', loc(fi))
    if len(seen) < 15:
        raise AnalysisError(f'only {len(seen)} definitional functions found')
    return res


# ----------------------------------------------------------------------
# R-REDUCE (C12): f(inventory) is f(position) mapped over the positions of that very inventory

def rule_reduce(P) -> RuleResult:
    from beancount.core import inventory as _inv, position as _pos
    res = RuleResult('R-REDUCE')
    res.exhaustive = True
    reg = registry.get(P)
    by = reg.funcs_by_name()
    CTX, VAL = Sym('CONTEXT'), Sym('VALUE')
    n = 0
    for name in ('units', 'cost', 'value', 'convert'):
        pos_f = [f for f in by.get(name, []) if f.intypes and f.intypes[0] is _pos.Position and f.impl is not None]
        inv_f = [f for f in by.get(name, []) if f.intypes and f.intypes[0] is _inv.Inventory and f.impl is not None]
        if not pos_f or not inv_f:
            raise AnalysisError(f'anchor vanished: position / inventory overloads of {name}()')
        n += 1

        def run(f):
            fi = f.impl
            off = 1 if (f.pass_context or f.pass_row) else 0
            env = {p: Sym(f'EXTRA{i}') for i, p in enumerate(fi.params[off + 1:])}
            env[fi.params[off]] = VAL
            for p in fi.params[:off]:
                env[p] = CTX
            paths = Engine(P).paths(fi, env)
            vals = {repr(_resolve_names(canon(p.value), fi.module)): _resolve_names(canon(p.value), fi.module) for p in paths if p.outcome == 'return'}
            return fi, list(vals.values())
        pfi, pvals = run(pos_f[0])
        ifi, ivals = run(inv_f[0])
        construct = f'function:{inv_f[0].label}'
        ok = False
        shown = ''
        if len(pvals) == 1 and len(ivals) == 1:
            pv, iv = pvals[0], ivals[0]
            # position: F(VALUE, extras...) ; inventory: VALUE.reduce(F, extras...)
            if isinstance(pv, tuple) and pv[0] == 'call' and pv[2][:1] == (VAL,) and isinstance(iv, tuple) and iv[0] == 'call' and iv[1] == 'VALUE.reduce':
                fn = iv[2][0] if iv[2] else None
                fn_name = fn[1] if isinstance(fn, tuple) and fn[0] == 'global' else None
                ok = fn_name == pv[1] and iv[2][1:] == pv[2][1:] and not iv[3] and not pv[3]
            shown = f'position: {pv}; inventory: {iv}'
        if ok:
            res.ok({'function': name, 'position': f'{pvals[0][1]}(pos, ...)', 'inventory': 'inv.reduce(the same function, the same extra arguments)'})
        else:
            res.fail(construct, 'reduce:definition', f'{name}(inventory) must be {name}(position) applied to every position of that very '
                     f'inventory - inv.reduce(f, extra...) with the f and the extra arguments of the position overload - so that it commutes '
                     f'with sum(); found {shown[:300] or "several different results"}', loc(ifi))
    return res
