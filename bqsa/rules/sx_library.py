"""R-DEFN on the term interpreter: the definitional functions of the scalar library return, on every path, the term of
their one-line definition (locals, helpers and statement order do not matter; an extra path with another result does)."""
from __future__ import annotations

import ast

from .. import registry
from ..symex import Sym, T, SList, Engine, show, canon
from ..loader import AnalysisError, loc
from ..report import RuleResult
from .library_rules import DEFINITIONS


def _resolve_names(c, module):
    """Canonical terms with the names of called globals resolved through the module's imports."""
    if isinstance(c, tuple):
        if len(c) == 4 and c[0] == 'call' and isinstance(c[1], str):
            name = c[1]
            try:
                e = ast.parse(name, mode='eval').body
                if isinstance(e, (ast.Name, ast.Attribute)):
                    d = module.dotted(e)
                    if d:
                        name = d.replace('builtins.', '')
            except SyntaxError:
                pass
            return ('call', name, _resolve_names(c[2], module), _resolve_names(c[3], module))
        if len(c) == 2 and c[0] == 'global' and isinstance(c[1], str):
            try:
                d = module.dotted(ast.parse(c[1], mode='eval').body)
            except SyntaxError:
                d = None
            return ('global', d or c[1])
        return tuple(_resolve_names(x, module) for x in c)
    return c


# the value an optional trailing operand stands for when it is left out: {function: {operand position: value}}
DEFN_DEFAULTS = {'round': {1: 0}, 'root': {1: 1}}


def rule_defn(P) -> RuleResult:
    res = RuleResult('R-DEFN')
    res.exhaustive = True
    reg = registry.get(P)
    m = P.module('beanquery.query_env')
    seen = set()
    for f in reg.funcs:
        if f.kind != 'function' or f.impl is None or f.name not in DEFINITIONS or (f.name, f.impl.fq, len(f.intypes)) in seen:
            continue
        seen.add((f.name, f.impl.fq, len(f.intypes)))
        fi = f.impl
        off = 1 if (f.pass_context or f.pass_row) else 0
        params = fi.params[off:]
        # arguments are terms of undecided truth (a bare symbol stands for an object and is true: `end or None` would never take its
        # second branch)
        env = {p: _arg(i) for i, p in enumerate(params)}
        for p in fi.params[:off]:
            env[p] = Sym('CONTEXT')
        # the definition, interpreted in the same module
        dnode = ast.parse(f'def _definition({", ".join(f"p{i}" for i in range(6))}):\n    return {DEFINITIONS[f.name]}').body[0]
        denv = {f'p{i}': _arg(i) for i in range(6)}
        # a registration with fewer operands than the implementation has parameters leaves the last ones to their defaults: the
        # function called that way is the definition with the documented value in that place (round(x) is round(x, 0))
        n_given = len(f.intypes)
        undocumented = False
        if n_given < len(params):
            defaults = fi.node.args.defaults
            for j in range(n_given, len(params)):
                k = j + off - (len(fi.params) - len(defaults))
                if f.name not in DEFN_DEFAULTS or j not in DEFN_DEFAULTS[f.name]:
                    # an overload with fewer operands than the definition speaks of: what it means is not on record; the
                    # registrations with all operands are judged on their own
                    undocumented = True
                    break
                if k < 0 or not isinstance(defaults[k], ast.Constant):
                    res.fail(f'function:{f.name}', 'defn:changed', f'{f.name}() is registered with {n_given} operand(s) but `{params[j]}` has '
                             f'no constant default', loc(fi))
                    continue
                env[params[j]] = defaults[k].value
                denv[f'p{j}'] = DEFN_DEFAULTS[f.name][j]
        if undocumented:
            continue
        denv['__fi__'] = fi
        dpaths = Engine(P).paths(dnode, denv)
        want = _resolve_names(canon(dpaths[0].value), fi.module)
        construct = f'function:{f.name}'
        paths = Engine(P).paths(fi, env)
        bad = None
        for p in paths:
            if p.outcome == 'raise':
                continue        # argument validation (ValueError and the like) is outside the definition
            got = _resolve_names(canon(p.value), fi.module)
            if got != want:
                bad = p
                break
        if bad is None:
            res.ok({'function': f.name, 'operands': n_given, 'definition': DEFINITIONS[f.name], 'paths': len(paths)})
        else:
            cond = f' when `{" and ".join(("" if o else "not ") + show(t)[:50] for t, o in bad.decisions)}`' if bad.decisions else ''
            res.fail(construct, 'defn:changed', f'{f.name}({", ".join(params)}) is defined as `{DEFINITIONS[f.name]}` '
                     f'(p0, p1, ... = its arguments); the implementation returns `{show(bad.value)[:100]}`{cond}', loc(fi))
    if len(seen) < 15:
        raise AnalysisError(f'only {len(seen)} definitional functions found')
    _reference_cases(P, res, reg)
    _impl_definition_cases(P, res, reg)
    _interval_cases(P, res, reg)
    return res


# functions with control flow: compared with a reference implementation through what they compute with - the outside functions they
# apply and to what (all paths together) - and, where the reference says so, the set of values they can return.  Loop shape, helper
# extraction and the spelling of the tests do not matter.
REFERENCES = {
    'findfirst': ('def _reference(p0, p1):\n    if not p1:\n        return None\n    for v in sorted(p1):\n        if re.match(p0, v):\n'
                  '            return v\n    return None\n', False,
                  'the first value, in sorted order, that the pattern matches at its start (re.match), else NULL'),
    'grep': ('def _reference(p0, p1):\n    m = re.search(p0, p1)\n    if m:\n        return m.group(0)\n    return None\n', True,
             'the portion of the string matched by re.search(pattern, string), else NULL'),
    'grepn': ('def _reference(p0, p1, p2):\n    m = re.search(p0, p1)\n    if m:\n        return m.group(p2)\n    return None\n', True,
              'subgroup n of re.search(pattern, string), else NULL'),
}


_PLUMBING = ('next', 'iter', 'list', 'tuple', 'any', 'all', 'bool', 'len', 'isinstance', 'filter', 'map', 're.compile')     # how values are walked, not what is computed


def _uses(P, fn, env, module):
    from ..symex import walk_terms
    calls, values = set(), set()
    for p in Engine(P).paths(fn, env):
        terms = [T('call', (e[1], e[2], e[3])) for e in p.events if e[0] == 'call'] + [t for t, _ in p.decisions]
        for t in terms:
            for x in walk_terms(t):
                if isinstance(x, T) and x.op == 'call' and x.args[0] not in _PLUMBING:
                    calls.add(repr(_resolve_names(canon(x), module)))
        if p.outcome == 'return':
            values.add(repr(_resolve_names(canon(p.value), module)))
    return calls, values


def _reference_cases(P, res, reg):
    seen = set()
    for f in reg.funcs:
        if f.kind != 'function' or f.impl is None or f.name not in REFERENCES or (f.name, f.impl.fq) in seen:
            continue
        seen.add((f.name, f.impl.fq))
        fi = f.impl
        src, with_values, words = REFERENCES[f.name]
        off = 1 if (f.pass_context or f.pass_row) else 0
        params = fi.params[off:]
        env = {p: Sym(f'p{i}') for i, p in enumerate(params)}
        for p in fi.params[:off]:
            env[p] = Sym('CONTEXT')
        dnode = ast.parse(src).body[0]
        denv = {f'p{i}': Sym(f'p{i}') for i in range(len(params))}
        denv['__fi__'] = fi
        want_calls, want_values = _uses(P, dnode, denv, fi.module)
        got_calls, got_values = _uses(P, fi, env, fi.module)
        construct = f'function:{f.name}'
        if got_calls != want_calls:
            diff = sorted(got_calls ^ want_calls)
            res.fail(construct, 'defn:changed', f'{f.name}({", ".join(params)}) is {words}; the implementation computes with '
                     f'{sorted(got_calls)}, the definition with {sorted(want_calls)} (difference: {diff[:2]})'[:600], loc(fi))
        elif with_values and got_values != want_values:
            res.fail(construct, 'defn:changed', f'{f.name}({", ".join(params)}) is {words}; the implementation can return '
                     f'{sorted(got_values)}, the definition {sorted(want_values)}'[:600], loc(fi))
        else:
            res.ok({'function': f.name, 'definition': words, 'computes_with': sorted(want_calls)})
    if len(seen) < len(REFERENCES):
        raise AnalysisError(f'only {len(seen)} of the {len(REFERENCES)} functions with a reference implementation found')


# ----------------------------------------------------------------------
# R-REDUCE (C12): f(inventory) is f(position) mapped over the positions of that very inventory

def rule_reduce(P) -> RuleResult:
    from beancount.core import inventory as _inv, position as _pos
    res = RuleResult('R-REDUCE')
    res.exhaustive = True
    reg = registry.get(P)
    by = reg.funcs_by_name()
    CTX, VAL = Sym('CONTEXT'), Sym('VALUE')
    n = 0
    for name in ('units', 'cost', 'value', 'convert'):
        pos_f = [f for f in by.get(name, []) if f.intypes and f.intypes[0] is _pos.Position and f.impl is not None]
        inv_f = [f for f in by.get(name, []) if f.intypes and f.intypes[0] is _inv.Inventory and f.impl is not None]
        if not pos_f or not inv_f:
            raise AnalysisError(f'anchor vanished: position / inventory overloads of {name}()')
        n += 1

        def run(f, defaults=False):
            fi = f.impl
            off = 1 if (f.pass_context or f.pass_row) else 0
            # the extra arguments given, or left out (their defaults apply: what a missing date or currency stands for must be the
            # same for a position and for an inventory)
            n_def = len(fi.node.args.defaults)
            extras = fi.params[off + 1:]
            env = {p: Sym(f'EXTRA{i}') for i, p in enumerate(extras) if not (defaults and i >= len(extras) - n_def)}
            env[fi.params[off]] = VAL
            for p in fi.params[:off]:
                env[p] = CTX
            paths = Engine(P).paths(fi, env)
            vals = {repr(_resolve_names(canon(p.value), fi.module)): _resolve_names(canon(p.value), fi.module) for p in paths if p.outcome == 'return'}
            return fi, list(vals.values())
        pfi, pvals = run(pos_f[0])
        ifi, ivals = run(inv_f[0])
        _, pvals_d = run(pos_f[0], True)
        _, ivals_d = run(inv_f[0], True)
        construct = f'function:{inv_f[0].label}'
        ok = False
        shown = ''
        if len(pvals) == 1 and len(ivals) == 1:
            pv, iv = pvals[0], ivals[0]
            # position: F(VALUE, extras...) ; inventory: VALUE.reduce(F, extras...)
            if isinstance(pv, tuple) and pv[0] == 'call' and pv[2][:1] == (VAL,) and isinstance(iv, tuple) and iv[0] == 'call' and iv[1] == 'VALUE.reduce':
                fn = iv[2][0] if iv[2] else None
                fn_name = fn[1] if isinstance(fn, tuple) and fn[0] == 'global' else None
                ok = fn_name == pv[1] and iv[2][1:] == pv[2][1:] and not iv[3] and not pv[3]
            shown = f'position: {pv}; inventory: {iv}'
        if ok and len(pvals_d) == 1 and len(ivals_d) == 1:
            pv, iv = pvals_d[0], ivals_d[0]
            same = isinstance(pv, tuple) and pv[0] == 'call' and isinstance(iv, tuple) and iv[0] == 'call' and iv[1] == 'VALUE.reduce' and \
                iv[2][1:] == pv[2][1:]
            if not same:
                ok = False
                shown = f'with the optional arguments left out - position: {pv}; inventory: {iv}'
        elif ok:
            ok = False
            shown = 'several different results when the optional arguments are left out'
        if ok:
            res.ok({'function': name, 'position': f'{pvals[0][1]}(pos, ...)', 'inventory': 'inv.reduce(the same function, the same extra arguments)',
                    'defaults': 'the same for both'})
        else:
            res.fail(construct, 'reduce:definition', f'{name}(inventory) must be {name}(position) applied to every position of that very '
                     f'inventory - inv.reduce(f, extra...) with the f and the extra arguments of the position overload - so that it commutes '
                     f'with sum(); found {shown[:300] or "several different results"}', loc(ifi))
    return res


# ----------------------------------------------------------------------
# R-CASTDEF (C18): what the casts convert, and the functions that depend on the ledger's account types

def rule_castdef(P) -> RuleResult:
    """date(<string>) converts exactly the strings strptime('%Y-%m-%d') accepts; date(<date>) is the date; date(y, m, d) is
    datetime.date(y, m, d); possign() and account_sortkey() classify accounts with the account types of *this* ledger."""
    res = RuleResult('R-CASTDEF')
    res.exhaustive = True
    reg = registry.get(P)
    m = P.module('beanquery.query_env')
    X = Sym('X')

    def impls(name, nargs):
        out = {}
        for f in reg.funcs:
            if f.name == name and f.kind == 'function' and f.impl is not None and len(f.intypes) == nargs:
                out[f.impl.fq] = f
        return list(out.values())
    # date(x)
    for f in impls('date', 1):
        fi = f.impl
        for kind in ('date', 'str', 'other'):
            def on_isinstance(v, c, ex, _k=kind):
                from ..symex import gname
                cn = gname(c)
                if v == X:
                    return _k == 'date' if cn.endswith('date') else _k == 'str' if cn.endswith('str') else False
                return NotImplemented
            vals = []
            for p in Engine(P, on_isinstance=on_isinstance).paths(fi, {fi.params[0]: X}):
                if p.outcome == 'return':
                    vals.append(_resolve_names(canon(p.value), fi.module))
            construct = f'function:date({kind})'
            if kind == 'date':
                good = vals == [X]
                want = 'the date itself'
            elif kind == 'str':
                want_t = ('call', "datetime.datetime.strptime(X, '%Y-%m-%d').date", (), ())
                got_names = [v for v in vals]
                good = len(vals) == 1 and isinstance(vals[0], tuple) and vals[0][0] == 'call' and \
                    str(vals[0][1]).replace('"', "'").endswith("strptime(X, '%Y-%m-%d').date") and not vals[0][2]
                want = "datetime.datetime.strptime(x, '%Y-%m-%d').date(): the conversion of a year-month-day string (or NULL when it is not one)"
            else:
                good = vals == [None]
                want = 'NULL'
            if good:
                res.ok({'function': f'date({kind})', 'value': want})
            else:
                res.fail(construct, 'castdef:date', f'date(<{kind}>) must be {want}; the implementation returns {vals}'[:400], loc(fi))
    for f in impls('date', 3):
        fi = f.impl
        Y, Mo, D = Sym('Y'), Sym('M'), Sym('D')
        vals = [_resolve_names(canon(p.value), fi.module) for p in Engine(P).paths(fi, dict(zip(fi.params, (Y, Mo, D)))) if p.outcome == 'return']
        if vals == [('call', 'datetime.date', (Y, Mo, D), ())]:
            res.ok({'function': 'date(y, m, d)', 'value': 'datetime.date(y, m, d)'})
        else:
            res.fail('function:date(int, int, int)', 'castdef:date3', f'date(y, m, d) must be datetime.date(y, m, d); returns {vals}'[:300], loc(fi))
    # int(x) / decimal(x): the Python conversion of the value - truncation toward zero for int() of a decimal, the exact value
    # for decimal() - or NULL where the conversion does not exist; whichever implementation is registered for an operand type
    for name, ctor in (('int', 'int'), ('decimal', 'decimal.Decimal')):
        fs = impls(name, 1)
        if not fs:
            raise AnalysisError(f'anchor vanished: the {name}() cast')
        for f in fs:
            fi = f.impl
            vals = []
            for p in Engine(P).paths(fi, {fi.params[0]: X}):
                if p.outcome == 'return':
                    vals.append(_resolve_names(canon(p.value), fi.module))
            conv = ('call', ctor, (X,), ())
            construct = f'function:{name}:{fi.name}'
            if conv in vals and all(v == conv or v is None for v in vals):
                res.ok({'function': f'{name}(x) [{fi.name}]', 'value': f'{ctor}(x), NULL where that fails'})
            else:
                res.fail(construct, f'castdef:{name}', f'{name}(x) must be {ctor}(x) - the converted value - or NULL where the conversion '
                         f'does not exist; the implementation {fi.name} returns {vals}'[:400], loc(fi))
    _account_types_cases(P, res, ('possign', 'account_sortkey'))
    return res


def _account_types_cases(P, res, names):
    reg = registry.get(P)
    X = Sym('X')

    def impls(name, nargs):
        out = {}
        for f in reg.funcs:
            if f.name == name and f.kind == 'function' and f.impl is not None and len(f.intypes) == nargs:
                out[f.impl.fq] = f
        return list(out.values())
    # possign / account_sortkey: the account types of this ledger
    CTX, ACC = Sym('CONTEXT'), Sym('ACCOUNT')
    TYPES = T('attr', (T('item', (T('attr', (CTX, 'tables')), 'accounts')), 'types'))
    for name in names:
        fs = impls(name, 2 if name == 'possign' else 1)
        if not fs:
            raise AnalysisError(f'anchor vanished: {name}()')
        fi = fs[0].impl
        construct = f'function:{name}'
        if len(fi.params) < (3 if name == 'possign' else 2):
            res.fail(construct, 'castdef:account-types', f'{name}() must classify the account with the account types of this ledger '
                     f'(context.tables["accounts"].types): ledgers may rename the five root accounts; it does not even receive the '
                     f'context (parameters: {fi.params})', loc(fi))
            continue
        env = {fi.params[0]: CTX}
        if name == 'possign':
            env[fi.params[1]] = X
            env[fi.params[2]] = ACC
        else:
            env[fi.params[1]] = ACC
        seen = []

        def on_call(fn, fv, rc, a, k, ex, nd):
            last = str(fn).split('.')[-1]
            if last in ('get_account_sign', 'get_account_sort_key'):
                seen.append((last, a, k))
                return Sym('SIGN') if last == 'get_account_sign' else T('tuple', (Sym('INDEX'), Sym('NAME')))
            return NotImplemented
        paths = Engine(P, on_call=on_call).paths(fi, env)
        uses_types = bool(seen) and all(TYPES in a or any(v == TYPES for _, v in k) for _, a, k in seen) and all(ACC in a for _, a, k in seen)
        construct = f'function:{name}'
        if not uses_types:
            res.fail(construct, 'castdef:account-types', f'{name}() must classify the account with the account types of this ledger '
                     f'(context.tables["accounts"].types): ledgers may rename the five root accounts; it calls '
                     f'{[(n, tuple(map(show, a))) for n, a, k in seen] or "no classifier"}', loc(fi))
            continue
        if name == 'possign':
            outs = {}
            for p in paths:
                for t, o in p.decisions:
                    if isinstance(t, T) and t.op == 'cmp' and Sym('SIGN') in (t.args[1], t.args[2]):
                        op, l, r = t.args
                        nonneg = o if (op, r) in (('>=', 0), ('>', -1)) and l == Sym('SIGN') else (not o) if (op, r) == ('<', 0) and l == Sym('SIGN') else \
                            o if (op, r) == ('>', 0) and l == Sym('SIGN') else None
                        outs[nonneg] = p.value
            if outs.get(True) == X and outs.get(False) == T('neg', (X,)):
                res.ok({'function': name, 'value': 'x for debit-normal accounts, -x for credit-normal ones', 'account_types': 'of this ledger'})
            else:
                res.fail(construct, 'castdef:possign', f'possign(x, account) must be x when the sign of the account is positive and -x otherwise; '
                         f'got {[(k, show(v)) for k, v in outs.items()]}', loc(fi))
        else:
            res.ok({'function': name, 'account_types': 'of this ledger'})


def rule_accttypes(P) -> RuleResult:
    """BALANCES orders its rows by account_sortkey(account): account type first, in the order of the account types of *this* ledger
    (ledgers may rename the five root accounts with the name_* options), then name."""
    res = RuleResult('R-ACCTTYPES')
    res.exhaustive = True
    _account_types_cases(P, res, ('account_sortkey',))
    return res


# ----------------------------------------------------------------------
# R-DEFN, second part: definitions with conditions, keyed by implementation (several overloads of one name differ)

# the definition of each implementation as a function of p0, p1, ... (and `context` for functions that receive the row context);
# compared path by path: the same value under the same conditions, however the conditions are spelled or nested
DEFINITIONS_BY_IMPL = {
    'quarter': "def _d(p0):\n    return '{:04d}-Q{:1d}'.format(p0.year, (p0.month - 1) // 3 + 1)\n",
    'weekday_': "def _d(p0):\n    return p0.strftime('%a')\n",
    'today': "def _d():\n    return datetime.date.today()\n",
    'bool_': "def _d(p0):\n    return bool(p0)\n",
    'position_units': "def _d(p0):\n    return convert.get_units(p0)\n",
    'inventory_units': "def _d(p0):\n    return p0.reduce(convert.get_units)\n",
    'position_cost': "def _d(p0):\n    return convert.get_cost(p0)\n",
    'inventory_cost': "def _d(p0):\n    return p0.reduce(convert.get_cost)\n",
    'convert_amount': "def _d(context, p0, p1, p2=None):\n    return convert.convert_amount(p0, p1, context.tables['prices'].price_map, p2)\n",
    'convert_position': "def _d(context, p0, p1, p2=None):\n    return convert.convert_position(p0, p1, context.tables['prices'].price_map, p2)\n",
    'convert_inventory': "def _d(context, p0, p1, p2=None):\n    return p0.reduce(convert.convert_position, p1, context.tables['prices'].price_map, p2)\n",
    'position_value': "def _d(context, p0, p1=None):\n    return convert.get_value(p0, context.tables['prices'].price_map, p1)\n",
    'inventory_value': "def _d(context, p0, p1=None):\n    return p0.reduce(convert.get_value, context.tables['prices'].price_map, p1)\n",
    'getprice': "def _d(context, p0, p1, p2=None):\n    return prices.get_price(context.tables['prices'].price_map, (p0.upper(), p1.upper()), p2)[1]\n",
    'filter_currency_position': "def _d(p0, p1):\n    if p0.units.currency == p1:\n        return p0\n    return None\n",
    'possign': "def _d(context, p0, p1):\n    if get_account_sign(p1, context.tables['accounts'].types) >= 0:\n        return p0\n    return -p0\n",
    'grep': "def _d(p0, p1):\n    m = re.search(p0, p1)\n    if m:\n        return m.group(0)\n    return None\n",
    'grepn': "def _d(p0, p1, p2):\n    m = re.search(p0, p1)\n    if m:\n        return m.group(p2)\n    return None\n",
    'parse_date': "def _d(p0, p1=None):\n    if p1 is None:\n        return dateutil.parser.parse(p0).date()\n    return datetime.datetime.strptime(p0, p1).date()\n",
}

_FLIP = {'!=': '==', 'is not': 'is', 'not in': 'in', '<': '>=', '>': '<='}


def _norm_decision(t, o, module):
    c = _resolve_names(canon(t), module)
    # canonical comparisons: ('cmp', op, a, b) in whatever tuple form canon gives; flip the negative spellings
    if isinstance(c, tuple) and len(c) == 4 and c[0] == 'cmp' and c[1] in _FLIP:
        c, o = ('cmp', _FLIP[c[1]], c[2], c[3]), not o
    # a match object is true, no match is None: `if m` and `if m is not None` are one test
    if isinstance(c, tuple) and len(c) == 4 and c[0] == 'cmp' and c[1] == 'is' and c[3] is None and isinstance(c[2], tuple) and c[2][:1] == ('call',) \
            and str(c[2][1]).startswith('re.'):
        c, o = c[2], not o
    return (repr(c), bool(o))


def _pathset(P, fn, env, module):
    out = set()
    for p in Engine(P).paths(fn, dict(env)):
        if p.outcome == 'raise':
            continue
        conds = frozenset(_norm_decision(t, o, module) for t, o in p.decisions)
        out.add((conds, repr(_resolve_names(canon(p.value), module))))
    return out


def _arg(i):
    # an argument of undecided truth (a bare symbol stands for an object and is true)
    return T('attr', (Sym('ARGUMENTS'), f'p{i}'))


def _impl_definition_cases(P, res, reg):
    seen = set()
    for f in reg.funcs:
        if f.kind != 'function' or f.impl is None or f.impl.name not in DEFINITIONS_BY_IMPL or f.impl.fq in seen:
            continue
        seen.add(f.impl.fq)
        fi = f.impl
        off = 1 if (f.pass_context or f.pass_row) else 0
        params = fi.params[off:]
        dnode = ast.parse(DEFINITIONS_BY_IMPL[fi.name]).body[0]
        dparams = [a.arg for a in dnode.args.args]
        if len(dparams) != len(fi.params):
            res.fail(f'function:{f.label}', 'defn:changed', f'{fi.name} takes {fi.params}; its definition on record takes {dparams}', loc(fi))
            continue
        CTXT = Sym('CONTEXT')
        env = {p: _arg(i) for i, p in enumerate(params)}
        for p in fi.params[:off]:
            env[p] = CTXT
        denv = {p: (CTXT if p == 'context' else _arg(int(p[1:]))) for p in dparams}
        denv['__fi__'] = fi
        want = _pathset(P, dnode, denv, fi.module)
        got = _pathset(P, fi, env, fi.module)
        if got == want:
            res.ok({'function': f.label, 'implementation': fi.name, 'paths': len(want), 'definition': ' '.join(DEFINITIONS_BY_IMPL[fi.name].split()[2:])[:120]})
        else:
            d = sorted(got - want) or sorted(want - got)
            conds, val = d[0]
            res.fail(f'function:{f.label}', 'defn:changed', f'{fi.name}({", ".join(params)}) is defined as `{" ".join(DEFINITIONS_BY_IMPL[fi.name].split())}`; '
                     f'the implementation {"returns" if got - want else "no longer returns"} `{val[:120]}` when '
                     f'{" and ".join(c[:60] + " is " + str(o) for c, o in sorted(conds)) or "always"}'[:700], loc(fi))
    if len(seen) < 12:
        raise AnalysisError(f'only {len(seen)} implementations with a definition on record found')
    # safediv: zero divisor -> the Decimal zero, never a division; otherwise the quotient
    sd = [f for f in reg.funcs if f.kind == 'function' and f.name == 'safediv' and f.impl is not None]
    if not sd:
        raise AnalysisError('anchor vanished: safediv')
    fi = sd[0].impl
    from .evalnodes import _zero_oracle
    X, Y = _arg(0), _arg(1)
    problems = []
    for zero in (True, False):
        for p in Engine(P, oracle=_zero_oracle(Y, zero)).paths(fi, {fi.params[0]: X, fi.params[1]: Y}):
            divs = [e for e in p.events if e[0] == 'div']
            v = _resolve_names(canon(p.value), fi.module)
            if zero and (divs or p.outcome != 'return' or repr(v) not in ("('global', 'beancount.core.number.ZERO')", "('call', 'decimal.Decimal', (0,), ())",
                                                                          "('call', 'decimal.Decimal', ('0',), ())", "('call', 'decimal.Decimal', (), ())")):
                problems.append(f'with a zero divisor it {"divides" if divs else "returns `" + show(p.value)[:40] + "`"}: safediv(x, 0) is the decimal zero')
            if not zero and (p.outcome != 'return' or p.value != T('bin', ('/', X, Y))):
                problems.append(f'with a non-zero divisor it returns `{show(p.value)[:60]}`: safediv(x, y) is x / y')
    if problems:
        res.fail('function:safediv', 'defn:changed', 'safediv: ' + '; '.join(problems[:2]), loc(fi))
    else:
        res.ok({'function': 'safediv', 'zero_divisor': 'Decimal zero, no division evaluated', 'otherwise': 'x / y'})


INTERVAL_UNITS = {'day': ('days', 1), 'week': ('weeks', 1), 'month': ('months', 1), 'year': ('years', 1),
                  'decade': ('years', 10), 'century': ('years', 100), 'millennium': ('years', 1000)}


def _interval_cases(P, res, reg):
    """interval('N unit[s]') on terms: for every unit word the pattern admits, the result is relativedelta(<that calendar unit>=N [x the
    multiple]); a string the pattern does not match gives NULL; N is the integer written."""
    import re._parser as sre
    fs = [f for f in reg.funcs if f.kind == 'function' and f.name == 'interval' and f.impl is not None]
    if not fs:
        raise AnalysisError('anchor vanished: interval()')
    fi = fs[0].impl
    X = Sym('TEXT')
    patterns = []

    def run(unit):
        MATCH, NUM = Sym('MATCH'), Sym('NUMBER_TEXT')

        def on_call(fn, fv, rc, a, k, ex, nd):
            d = str(fn)
            if d.split('.')[0] == 're' and d.split('.')[-1] in ('fullmatch', 'match', 'search') and len(a) >= 2 and isinstance(a[0], str):
                patterns.append((d.split('.')[-1], a[0], a[1]))
                return MATCH if unit is not None else None
            if rc == MATCH and d.split('.')[-1] == 'group' and len(a) == 1:
                return {1: NUM, 2: unit}.get(a[0], T('call', (d, tuple(a), ())))
            if rc == MATCH and d.split('.')[-1] == 'groups' and not a:
                return T('tuple', (NUM, unit))
            return NotImplemented

        def on_item(base, i, ex):
            if base == MATCH and i in (1, 2):
                return {1: NUM, 2: unit}[i]
            return NotImplemented
        return NUM, [p for p in Engine(P, on_call=on_call, on_item=on_item).paths(fi, {fi.params[0]: X})]
    _, ps = run(None)
    if not patterns:
        raise AnalysisError(f'{fi.fq}: the pattern of the interval syntax was not found on terms')
    how, pattern, subject = patterns[0]
    if subject != X:
        res.fail('function:interval', 'defn:changed', f'interval() matches its pattern against `{show(subject)}`, not against its argument', loc(fi))
        return
    if any(p.outcome != 'return' or p.value is not None for p in ps):
        res.fail('function:interval', 'defn:changed', 'interval() of a string that is not `N unit` must be NULL', loc(fi))
        return
    # the unit words the pattern admits: the literal alternatives of its second group
    units = None
    try:
        parsed = sre.parse(pattern)
        groups = [x for x in parsed if str(x[0]) == 'SUBPATTERN']
        if len(groups) >= 2:
            body = groups[1][1][3]
            alts = body[0][1][1] if len(body) == 1 and str(body[0][0]) == 'BRANCH' else [body]
            units = [''.join(chr(c[1]) for c in alt) for alt in alts if all(str(c[0]) == 'LITERAL' for c in alt)]
            if len(units) != len(alts):
                units = None
    except Exception:   # noqa: BLE001
        units = None
    if not units:
        raise AnalysisError(f'{fi.fq}: unit alternatives of the pattern {pattern!r} not understood')
    # the whole argument is the interval (fullmatch, or match / search anchored at both ends), sign and digits, blank(s), unit, optional s
    import re as _re
    rx = _re.compile(pattern)
    match = {'fullmatch': rx.fullmatch, 'match': rx.match, 'search': rx.search}[how]
    for u in units:
        for text, want in ((f'3 {u}', True), (f'-3 {u}s', True), (f'+12 {u}', True), (f'3  {u}', True), (f'3{u}', False), (u, False),
                           (f'3 {u} x', False), (f'x 3 {u}', False), (f'3.5 {u}', False), (f'3 {u}ss', False)):
            m = match(text)
            if bool(m) != want or (m and (m.group(1) != text.split()[0] or m.group(2) != u)):
                res.fail('function:interval', 'defn:changed', f'the interval syntax is `[+-]digits blank(s) unit[s]` over the whole argument: '
                         f'{text!r} is {"rejected" if want else "accepted"} by the pattern {pattern!r} ({how})', loc(fi))
                return
    for u in units:
        if u not in INTERVAL_UNITS:
            res.fail('function:interval', 'defn:changed', f'the pattern admits the unit `{u}`, which is not a calendar unit of interval()', loc(fi))
            continue
        kw, mult = INTERVAL_UNITS[u]
        NUM, ps = run(u)
        n = T('call', ('int', (NUM,), ()))
        want = {repr(canon(T('call', ('relativedelta', (), ((kw, n if mult == 1 else T('bin', ('*', n, mult))),))))),
                repr(canon(T('call', ('relativedelta', (), ((kw, n if mult == 1 else T('bin', ('*', mult, n))),)))))}
        got = {repr(_strip_module(canon(p.value))) for p in ps if p.outcome == 'return'}
        if not got or not got <= want:
            res.fail('function:interval', 'defn:changed', f"interval('N {u}') is relativedelta({kw}=N{'' if mult == 1 else ' * ' + str(mult)}) with N the "
                     f'integer written; the implementation gives {sorted(got)[:2] or "nothing"}'[:500], loc(fi))
        else:
            res.ok({'function': 'interval', 'unit': u, 'value': f'relativedelta({kw}=N{"" if mult == 1 else " * " + str(mult)})'})
    if not {'day', 'month', 'year'} <= set(units):
        res.fail('function:interval', 'defn:changed', f'interval() must accept days, months and years; the pattern admits {units}', loc(fi))


def _strip_module(c):
    """`dateutil.relativedelta.relativedelta(...)` and `relativedelta(...)` are the same callee."""
    if isinstance(c, tuple):
        if len(c) == 4 and c[0] == 'call' and isinstance(c[1], str):
            return ('call', c[1].split('.')[-1], _strip_module(c[2]), _strip_module(c[3]))
        return tuple(_strip_module(x) for x in c)
    return c
