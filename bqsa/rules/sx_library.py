"""R-DEFN on the term interpreter: the definitional functions of the scalar library return, on every path, the term of
their one-line definition (locals, helpers and statement order do not matter; an extra path with another result does)."""
from __future__ import annotations

import ast

from .. import registry
from ..symex import Sym, T, SList, Engine, show, canon
from ..loader import AnalysisError, loc
from ..report import RuleResult
from .library_rules import DEFINITIONS


def _resolve_names(c, module):
    """Canonical terms with the names of called globals resolved through the module's imports."""
    if isinstance(c, tuple):
        if len(c) == 4 and c[0] == 'call' and isinstance(c[1], str):
            name = c[1]
            try:
                e = ast.parse(name, mode='eval').body
                if isinstance(e, (ast.Name, ast.Attribute)):
                    d = module.dotted(e)
                    if d:
                        name = d.replace('builtins.', '')
            except SyntaxError:
                pass
            return ('call', name, _resolve_names(c[2], module), _resolve_names(c[3], module))
        if len(c) == 2 and c[0] == 'global' and isinstance(c[1], str):
            try:
                d = module.dotted(ast.parse(c[1], mode='eval').body)
            except SyntaxError:
                d = None
            return ('global', d or c[1])
        return tuple(_resolve_names(x, module) for x in c)
    return c


def rule_defn(P) -> RuleResult:
    res = RuleResult('R-DEFN')
    res.exhaustive = True
    reg = registry.get(P)
    m = P.module('beanquery.query_env')
    seen = set()
    for f in reg.funcs:
        if f.kind != 'function' or f.impl is None or f.name not in DEFINITIONS or (f.name, f.impl.fq) in seen:
            continue
        seen.add((f.name, f.impl.fq))
        fi = f.impl
        off = 1 if (f.pass_context or f.pass_row) else 0
        params = fi.params[off:]
        env = {p: Sym(f'p{i}') for i, p in enumerate(params)}
        for p in fi.params[:off]:
            env[p] = Sym('CONTEXT')
        # the definition, interpreted in the same module
        dnode = ast.parse(f'def _definition({", ".join(f"p{i}" for i in range(6))}):\n    return {DEFINITIONS[f.name]}').body[0]
        denv = {f'p{i}': Sym(f'p{i}') for i in range(6)}
        denv['__fi__'] = fi
        dpaths = Engine(P).paths(dnode, denv)
        want = _resolve_names(canon(dpaths[0].value), fi.module)
        construct = f'function:{f.name}'
        paths = Engine(P).paths(fi, env)
        bad = None
        for p in paths:
            if p.outcome == 'raise':
                continue        # argument validation (ValueError and the like) is outside the definition
            got = _resolve_names(canon(p.value), fi.module)
            if got != want:
                bad = p
                break
        if bad is None:
            res.ok({'function': f.name, 'definition': DEFINITIONS[f.name], 'paths': len(paths)})
        else:
            cond = f' when `{" and ".join(("" if o else "not ") + show(t)[:50] for t, o in bad.decisions)}`' if bad.decisions else ''
            res.fail(construct, 'defn:changed', f'{f.name}({", ".join(params)}) is defined as `{DEFINITIONS[f.name]}` '
                     f'(p0, p1, ... = its arguments); the implementation returns `{show(bad.value)[:100]}`{cond}', loc(fi))
    if len(seen) < 15:
        raise AnalysisError(f'only {len(seen)} definitional functions found')
    _reference_cases(P, res, reg)
    return res


# functions with control flow: compared with a reference implementation through what they compute with - the outside functions they
# apply and to what (all paths together) - and, where the reference says so, the set of values they can return.  Loop shape, helper
# extraction and the spelling of the tests do not matter.
REFERENCES = {
    'findfirst': ('def _reference(p0, p1):\n    if not p1:\n        return None\n    for v in sorted(p1):\n        if re.match(p0, v):\n'
                  '            return v\n    return None\n', False,
                  'the first value, in sorted order, that the pattern matches at its start (re.match), else NULL'),
    'grep': ('def _reference(p0, p1):\n    m = re.search(p0, p1)\n    if m:\n        return m.group(0)\n    return None\n', True,
             'the portion of the string matched by re.search(pattern, string), else NULL'),
    'grepn': ('def _reference(p0, p1, p2):\n    m = re.search(p0, p1)\n    if m:\n        return m.group(p2)\n    return None\n', True,
              'subgroup n of re.search(pattern, string), else NULL'),
}


_PLUMBING = ('next', 'iter', 'list', 'tuple', 'any', 'all', 'bool', 'len', 'isinstance', 'filter', 'map')     # how values are walked, not what is computed


def _uses(P, fn, env, module):
    from ..symex import walk_terms
    calls, values = set(), set()
    for p in Engine(P).paths(fn, env):
        terms = [T('call', (e[1], e[2], e[3])) for e in p.events if e[0] == 'call'] + [t for t, _ in p.decisions]
        for t in terms:
            for x in walk_terms(t):
                if isinstance(x, T) and x.op == 'call' and x.args[0] not in _PLUMBING:
                    calls.add(repr(_resolve_names(canon(x), module)))
        if p.outcome == 'return':
            values.add(repr(_resolve_names(canon(p.value), module)))
    return calls, values


def _reference_cases(P, res, reg):
    seen = set()
    for f in reg.funcs:
        if f.kind != 'function' or f.impl is None or f.name not in REFERENCES or (f.name, f.impl.fq) in seen:
            continue
        seen.add((f.name, f.impl.fq))
        fi = f.impl
        src, with_values, words = REFERENCES[f.name]
        off = 1 if (f.pass_context or f.pass_row) else 0
        params = fi.params[off:]
        env = {p: Sym(f'p{i}') for i, p in enumerate(params)}
        for p in fi.params[:off]:
            env[p] = Sym('CONTEXT')
        dnode = ast.parse(src).body[0]
        denv = {f'p{i}': Sym(f'p{i}') for i in range(len(params))}
        denv['__fi__'] = fi
        want_calls, want_values = _uses(P, dnode, denv, fi.module)
        got_calls, got_values = _uses(P, fi, env, fi.module)
        construct = f'function:{f.name}'
        if got_calls != want_calls:
            diff = sorted(got_calls ^ want_calls)
            res.fail(construct, 'defn:changed', f'{f.name}({", ".join(params)}) is {words}; the implementation computes with '
                     f'{sorted(got_calls)}, the definition with {sorted(want_calls)} (difference: {diff[:2]})'[:600], loc(fi))
        elif with_values and got_values != want_values:
            res.fail(construct, 'defn:changed', f'{f.name}({", ".join(params)}) is {words}; the implementation can return '
                     f'{sorted(got_values)}, the definition {sorted(want_values)}'[:600], loc(fi))
        else:
            res.ok({'function': f.name, 'definition': words, 'computes_with': sorted(want_calls)})
    if len(seen) < len(REFERENCES):
        raise AnalysisError(f'only {len(seen)} of the {len(REFERENCES)} functions with a reference implementation found')


# ----------------------------------------------------------------------
# R-REDUCE (C12): f(inventory) is f(position) mapped over the positions of that very inventory

def rule_reduce(P) -> RuleResult:
    from beancount.core import inventory as _inv, position as _pos
    res = RuleResult('R-REDUCE')
    res.exhaustive = True
    reg = registry.get(P)
    by = reg.funcs_by_name()
    CTX, VAL = Sym('CONTEXT'), Sym('VALUE')
    n = 0
    for name in ('units', 'cost', 'value', 'convert'):
        pos_f = [f for f in by.get(name, []) if f.intypes and f.intypes[0] is _pos.Position and f.impl is not None]
        inv_f = [f for f in by.get(name, []) if f.intypes and f.intypes[0] is _inv.Inventory and f.impl is not None]
        if not pos_f or not inv_f:
            raise AnalysisError(f'anchor vanished: position / inventory overloads of {name}()')
        n += 1

        def run(f):
            fi = f.impl
            off = 1 if (f.pass_context or f.pass_row) else 0
            env = {p: Sym(f'EXTRA{i}') for i, p in enumerate(fi.params[off + 1:])}
            env[fi.params[off]] = VAL
            for p in fi.params[:off]:
                env[p] = CTX
            paths = Engine(P).paths(fi, env)
            vals = {repr(_resolve_names(canon(p.value), fi.module)): _resolve_names(canon(p.value), fi.module) for p in paths if p.outcome == 'return'}
            return fi, list(vals.values())
        pfi, pvals = run(pos_f[0])
        ifi, ivals = run(inv_f[0])
        construct = f'function:{inv_f[0].label}'
        ok = False
        shown = ''
        if len(pvals) == 1 and len(ivals) == 1:
            pv, iv = pvals[0], ivals[0]
            # position: F(VALUE, extras...) ; inventory: VALUE.reduce(F, extras...)
            if isinstance(pv, tuple) and pv[0] == 'call' and pv[2][:1] == (VAL,) and isinstance(iv, tuple) and iv[0] == 'call' and iv[1] == 'VALUE.reduce':
                fn = iv[2][0] if iv[2] else None
                fn_name = fn[1] if isinstance(fn, tuple) and fn[0] == 'global' else None
                ok = fn_name == pv[1] and iv[2][1:] == pv[2][1:] and not iv[3] and not pv[3]
            shown = f'position: {pv}; inventory: {iv}'
        if ok:
            res.ok({'function': name, 'position': f'{pvals[0][1]}(pos, ...)', 'inventory': 'inv.reduce(the same function, the same extra arguments)'})
        else:
            res.fail(construct, 'reduce:definition', f'{name}(inventory) must be {name}(position) applied to every position of that very '
                     f'inventory - inv.reduce(f, extra...) with the f and the extra arguments of the position overload - so that it commutes '
                     f'with sum(); found {shown[:300] or "several different results"}', loc(ifi))
    return res


# ----------------------------------------------------------------------
# R-CASTDEF (C18): what the casts convert, and the functions that depend on the ledger's account types

def rule_castdef(P) -> RuleResult:
    """date(<string>) converts exactly the strings strptime('%Y-%m-%d') accepts; date(<date>) is the date; date(y, m, d) is
    datetime.date(y, m, d); possign() and account_sortkey() classify accounts with the account types of *this* ledger."""
    res = RuleResult('R-CASTDEF')
    res.exhaustive = True
    reg = registry.get(P)
    m = P.module('beanquery.query_env')
    X = Sym('X')

    def impls(name, nargs):
        out = {}
        for f in reg.funcs:
            if f.name == name and f.kind == 'function' and f.impl is not None and len(f.intypes) == nargs:
                out[f.impl.fq] = f
        return list(out.values())
    # date(x)
    for f in impls('date', 1):
        fi = f.impl
        for kind in ('date', 'str', 'other'):
            def on_isinstance(v, c, ex, _k=kind):
                from ..symex import gname
                cn = gname(c)
                if v == X:
                    return _k == 'date' if cn.endswith('date') else _k == 'str' if cn.endswith('str') else False
                return NotImplemented
            vals = []
            for p in Engine(P, on_isinstance=on_isinstance).paths(fi, {fi.params[0]: X}):
                if p.outcome == 'return':
                    vals.append(_resolve_names(canon(p.value), fi.module))
            construct = f'function:date({kind})'
            if kind == 'date':
                good = vals == [X]
                want = 'the date itself'
            elif kind == 'str':
                want_t = ('call', "datetime.datetime.strptime(X, '%Y-%m-%d').date", (), ())
                got_names = [v for v in vals]
                good = len(vals) == 1 and isinstance(vals[0], tuple) and vals[0][0] == 'call' and \
                    str(vals[0][1]).replace('"', "'").endswith("strptime(X, '%Y-%m-%d').date") and not vals[0][2]
                want = "datetime.datetime.strptime(x, '%Y-%m-%d').date(): the conversion of a year-month-day string (or NULL when it is not one)"
            else:
                good = vals == [None]
                want = 'NULL'
            if good:
                res.ok({'function': f'date({kind})', 'value': want})
            else:
                res.fail(construct, 'castdef:date', f'date(<{kind}>) must be {want}; the implementation returns {vals}'[:400], loc(fi))
    for f in impls('date', 3):
        fi = f.impl
        Y, Mo, D = Sym('Y'), Sym('M'), Sym('D')
        vals = [_resolve_names(canon(p.value), fi.module) for p in Engine(P).paths(fi, dict(zip(fi.params, (Y, Mo, D)))) if p.outcome == 'return']
        if vals == [('call', 'datetime.date', (Y, Mo, D), ())]:
            res.ok({'function': 'date(y, m, d)', 'value': 'datetime.date(y, m, d)'})
        else:
            res.fail('function:date(int, int, int)', 'castdef:date3', f'date(y, m, d) must be datetime.date(y, m, d); returns {vals}'[:300], loc(fi))
    _account_types_cases(P, res, ('possign', 'account_sortkey'))
    return res


def _account_types_cases(P, res, names):
    reg = registry.get(P)
    X = Sym('X')

    def impls(name, nargs):
        out = {}
        for f in reg.funcs:
            if f.name == name and f.kind == 'function' and f.impl is not None and len(f.intypes) == nargs:
                out[f.impl.fq] = f
        return list(out.values())
    # possign / account_sortkey: the account types of this ledger
    CTX, ACC = Sym('CONTEXT'), Sym('ACCOUNT')
    TYPES = T('attr', (T('item', (T('attr', (CTX, 'tables')), 'accounts')), 'types'))
    for name in names:
        fs = impls(name, 2 if name == 'possign' else 1)
        if not fs:
            raise AnalysisError(f'anchor vanished: {name}()')
        fi = fs[0].impl
        construct = f'function:{name}'
        if len(fi.params) < (3 if name == 'possign' else 2):
            res.fail(construct, 'castdef:account-types', f'{name}() must classify the account with the account types of this ledger '
                     f'(context.tables["accounts"].types): ledgers may rename the five root accounts; it does not even receive the '
                     f'context (parameters: {fi.params})', loc(fi))
            continue
        env = {fi.params[0]: CTX}
        if name == 'possign':
            env[fi.params[1]] = X
            env[fi.params[2]] = ACC
        else:
            env[fi.params[1]] = ACC
        seen = []

        def on_call(fn, fv, rc, a, k, ex, nd):
            last = str(fn).split('.')[-1]
            if last in ('get_account_sign', 'get_account_sort_key'):
                seen.append((last, a, k))
                return Sym('SIGN') if last == 'get_account_sign' else T('tuple', (Sym('INDEX'), Sym('NAME')))
            return NotImplemented
        paths = Engine(P, on_call=on_call).paths(fi, env)
        uses_types = bool(seen) and all(TYPES in a or any(v == TYPES for _, v in k) for _, a, k in seen) and all(ACC in a for _, a, k in seen)
        construct = f'function:{name}'
        if not uses_types:
            res.fail(construct, 'castdef:account-types', f'{name}() must classify the account with the account types of this ledger '
                     f'(context.tables["accounts"].types): ledgers may rename the five root accounts; it calls '
                     f'{[(n, tuple(map(show, a))) for n, a, k in seen] or "no classifier"}', loc(fi))
            continue
        if name == 'possign':
            outs = {}
            for p in paths:
                for t, o in p.decisions:
                    if isinstance(t, T) and t.op == 'cmp' and Sym('SIGN') in (t.args[1], t.args[2]):
                        op, l, r = t.args
                        nonneg = o if (op, r) in (('>=', 0), ('>', -1)) and l == Sym('SIGN') else (not o) if (op, r) == ('<', 0) and l == Sym('SIGN') else \
                            o if (op, r) == ('>', 0) and l == Sym('SIGN') else None
                        outs[nonneg] = p.value
            if outs.get(True) == X and outs.get(False) == T('neg', (X,)):
                res.ok({'function': name, 'value': 'x for debit-normal accounts, -x for credit-normal ones', 'account_types': 'of this ledger'})
            else:
                res.fail(construct, 'castdef:possign', f'possign(x, account) must be x when the sign of the account is positive and -x otherwise; '
                         f'got {[(k, show(v)) for k, v in outs.items()]}', loc(fi))
        else:
            res.ok({'function': name, 'account_types': 'of this ledger'})


def rule_accttypes(P) -> RuleResult:
    """BALANCES orders its rows by account_sortkey(account): account type first, in the order of the account types of *this* ledger
    (ledgers may rename the five root accounts with the name_* options), then name."""
    res = RuleResult('R-ACCTTYPES')
    res.exhaustive = True
    _account_types_cases(P, res, ('account_sortkey',))
    return res
