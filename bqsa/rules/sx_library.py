"""R-DEFN on the term interpreter: the definitional functions of the scalar library return, on every path, the term of
their one-line definition (locals, helpers and statement order do not matter; an extra path with another result does)."""
from __future__ import annotations

import ast

from .. import registry
from ..symex import Sym, T, SList, Engine, show, canon
from ..loader import AnalysisError, loc
from ..report import RuleResult
from .library_rules import DEFINITIONS


def _resolve_names(c, module):
    """Canonical terms with the names of called globals resolved through the module's imports."""
    if isinstance(c, tuple):
        if len(c) == 4 and c[0] == 'call' and isinstance(c[1], str):
            name = c[1]
            try:
                e = ast.parse(name, mode='eval').body
                if isinstance(e, (ast.Name, ast.Attribute)):
                    d = module.dotted(e)
                    if d:
                        name = d.replace('builtins.', '')
            except SyntaxError:
                pass
            return ('call', name, _resolve_names(c[2], module), _resolve_names(c[3], module))
        if len(c) == 2 and c[0] == 'global' and isinstance(c[1], str):
            try:
                d = module.dotted(ast.parse(c[1], mode='eval').body)
            except SyntaxError:
                d = None
            return ('global', d or c[1])
        return tuple(_resolve_names(x, module) for x in c)
    return c


def rule_defn(P) -> RuleResult:
    res = RuleResult('R-DEFN')
    res.exhaustive = True
    reg = registry.get(P)
    m = P.module('beanquery.query_env')
    seen = set()
    for f in reg.funcs:
        if f.kind != 'function' or f.impl is None or f.name not in DEFINITIONS or (f.name, f.impl.fq) in seen:
            continue
        seen.add((f.name, f.impl.fq))
        fi = f.impl
        off = 1 if (f.pass_context or f.pass_row) else 0
        params = fi.params[off:]
        env = {p: Sym(f'p{i}') for i, p in enumerate(params)}
        for p in fi.params[:off]:
            env[p] = Sym('CONTEXT')
        # the definition, interpreted in the same module
        dnode = ast.parse(f'def _definition({", ".join(f"p{i}" for i in range(6))}):\n    return {DEFINITIONS[f.name]}').body[0]
        denv = {f'p{i}': Sym(f'p{i}') for i in range(6)}
        denv['__fi__'] = fi
        dpaths = Engine(P).paths(dnode, denv)
        want = _resolve_names(canon(dpaths[0].value), fi.module)
        construct = f'function:{f.name}'
        paths = Engine(P).paths(fi, env)
        bad = None
        for p in paths:
            if p.outcome == 'raise':
                continue        # argument validation (ValueError and the like) is outside the definition
            got = _resolve_names(canon(p.value), fi.module)
            if got != want:
                bad = p
                break
        if bad is None:
            res.ok({'function': f.name, 'definition': DEFINITIONS[f.name], 'paths': len(paths)})
        else:
            cond = f' when `{" and ".join(("" if o else "not ") + show(t)[:50] for t, o in bad.decisions)}`' if bad.decisions else ''
            res.fail(construct, 'defn:changed', f'{f.name}({", ".join(params)}) is defined as `{DEFINITIONS[f.name]}` '
                     f'(p0, p1, ... = its arguments); the implementation returns `{show(bad.value)[:100]}`{cond}', loc(fi))
    if len(seen) < 15:
        raise AnalysisError(f'only {len(seen)} definitional functions found')
    return res
