"""Rules on query_execute.execute_select / execute_query / execute_print.

R-ROWLOOP, R-AGGPROTO (C01, C02), R-PIPELINE, R-SORTSKEL, R-NULLKEY (C03), R-PRINTFILTER (C14).

The function is read structurally.  When the overall *shape* is not the one
these rules understand (e.g. the sort was rewritten with another algorithm) the
result is AnalysisError (exit 2): a verdict is only given when the recognised
skeleton is present and one of its components deviates.
"""
from __future__ import annotations

import ast
import re

from .. import finite
from ..loader import AnalysisError, FuncInfo, loc, body_without_docstring, is_none, attr_chain
from ..report import RuleResult

QX = 'beanquery.query_execute'


def unparse(n):
    return ast.unparse(n)


class Tracer(finite.Machine):
    """A finite.Machine that records every call as an event and treats unknown expressions as opaque."""

    def __init__(self, classes=None, names=None):
        super().__init__(call=self._call, expr=self._expr, names=names or {})
        self.classes = classes or {}

    def _call(self, e, st, m):
        src = unparse(e.func)
        if src in self.classes:
            self.events.append(('call', src, tuple(unparse(a) for a in e.args)))
            return self.classes[src]
        args = []
        for a in e.args:
            try:
                args.append(self.ev(a, st))
            except AnalysisError:
                args.append(finite.Sym(unparse(a)))
        self.events.append(('call', src, tuple(unparse(a) for a in e.args)))
        return finite.Sym(f'{src}(...)')

    def _expr(self, e, st, m):
        if isinstance(e, (ast.ListComp, ast.GeneratorExp, ast.SetComp)):
            return finite.Sym('COMP:' + unparse(e))
        if isinstance(e, ast.Attribute):
            return self.names.get(unparse(e), finite.Sym(unparse(e)))
        if isinstance(e, ast.Subscript):
            return finite.Sym(unparse(e))
        return NotImplemented

    def stmt(self, s, st):
        if isinstance(s, ast.For):
            it = unparse(s.iter)
            self.events.append(('for-begin', it))
            st = dict(st)
            if isinstance(s.target, ast.Name):
                st[s.target.id] = finite.Sym('EL:' + it)
            elif isinstance(s.target, ast.Tuple):
                for t in s.target.elts:
                    if isinstance(t, ast.Name):
                        st[t.id] = finite.Sym('EL:' + it + ':' + t.id)
            try:
                st = self.run(s.body, st)
            except finite.Continue:
                pass
            self.events.append(('for-end', it))
            return st
        if isinstance(s, ast.Assign) and len(s.targets) == 1 and isinstance(s.targets[0], ast.Tuple):
            v = self.ev(s.value, st)
            st = dict(st)
            for t in s.targets[0].elts:
                if isinstance(t, ast.Name):
                    st[t.id] = finite.Sym(f'{t.id}<-{unparse(s.value)}')
            return st
        if isinstance(s, ast.Assign) and len(s.targets) == 1 and isinstance(s.targets[0], (ast.Subscript, ast.Attribute)):
            self.events.append(('store', unparse(s.targets[0]), unparse(s.value)))
            return st
        if isinstance(s, ast.AugAssign):
            self.events.append(('aug', unparse(s.target), unparse(s.value)))
            return st
        return super().stmt(s, st)




















# ----------------------------------------------------------------------
# R-AGGPROTO



# ----------------------------------------------------------------------
# R-PIPELINE / R-SORTSKEL







# ----------------------------------------------------------------------
# R-NULLKEY  (finite)

NULLM = finite.Sym('NULL')
VV = finite.Sym('V')




# ----------------------------------------------------------------------
# R-PRINTFILTER (C14)



# ----------------------------------------------------------------------
# R-FROMAND (C01): the FROM expression is AND-ed with the WHERE expression



