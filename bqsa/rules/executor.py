"""Rules on query_execute.execute_select / execute_query / execute_print.

R-ROWLOOP, R-AGGPROTO (C01, C02), R-PIPELINE, R-SORTSKEL, R-NULLKEY (C03), R-PRINTFILTER (C14).

The function is read structurally.  When the overall *shape* is not the one
these rules understand (e.g. the sort was rewritten with another algorithm) the
result is AnalysisError (exit 2): a verdict is only given when the recognised
skeleton is present and one of its components deviates.
"""
from __future__ import annotations

import ast
import re

from .. import finite
from ..loader import AnalysisError, FuncInfo, loc, body_without_docstring, is_none, attr_chain
from ..report import RuleResult

QX = 'beanquery.query_execute'


def unparse(n):
    return ast.unparse(n)


class Tracer(finite.Machine):
    """A finite.Machine that records every call as an event and treats unknown expressions as opaque."""

    def __init__(self, classes=None, names=None):
        super().__init__(call=self._call, expr=self._expr, names=names or {})
        self.classes = classes or {}

    def _call(self, e, st, m):
        src = unparse(e.func)
        if src in self.classes:
            self.events.append(('call', src, tuple(unparse(a) for a in e.args)))
            return self.classes[src]
        args = []
        for a in e.args:
            try:
                args.append(self.ev(a, st))
            except AnalysisError:
                args.append(finite.Sym(unparse(a)))
        self.events.append(('call', src, tuple(unparse(a) for a in e.args)))
        return finite.Sym(f'{src}(...)')

    def _expr(self, e, st, m):
        if isinstance(e, (ast.ListComp, ast.GeneratorExp, ast.SetComp)):
            return finite.Sym('COMP:' + unparse(e))
        if isinstance(e, ast.Attribute):
            return self.names.get(unparse(e), finite.Sym(unparse(e)))
        if isinstance(e, ast.Subscript):
            return finite.Sym(unparse(e))
        return NotImplemented

    def stmt(self, s, st):
        if isinstance(s, ast.For):
            it = unparse(s.iter)
            self.events.append(('for-begin', it))
            st = dict(st)
            if isinstance(s.target, ast.Name):
                st[s.target.id] = finite.Sym('EL:' + it)
            elif isinstance(s.target, ast.Tuple):
                for t in s.target.elts:
                    if isinstance(t, ast.Name):
                        st[t.id] = finite.Sym('EL:' + it + ':' + t.id)
            try:
                st = self.run(s.body, st)
            except finite.Continue:
                pass
            self.events.append(('for-end', it))
            return st
        if isinstance(s, ast.Assign) and len(s.targets) == 1 and isinstance(s.targets[0], ast.Tuple):
            v = self.ev(s.value, st)
            st = dict(st)
            for t in s.targets[0].elts:
                if isinstance(t, ast.Name):
                    st[t.id] = finite.Sym(f'{t.id}<-{unparse(s.value)}')
            return st
        if isinstance(s, ast.Assign) and len(s.targets) == 1 and isinstance(s.targets[0], (ast.Subscript, ast.Attribute)):
            self.events.append(('store', unparse(s.targets[0]), unparse(s.value)))
            return st
        if isinstance(s, ast.AugAssign):
            self.events.append(('aug', unparse(s.target), unparse(s.value)))
            return st
        return super().stmt(s, st)


def _select_fn(P) -> FuncInfo:
    return P.func(QX, 'execute_select')


def _qparam(fi):
    if not fi.params:
        raise AnalysisError(f'{fi.fq}: no query parameter')
    return fi.params[0]


def _aliases(fi, expr_src):
    """Names assigned (at any depth) exactly the expression `expr_src`, plus the expression itself."""
    out = {expr_src}
    for n in ast.walk(fi.node):
        if isinstance(n, ast.Assign) and len(n.targets) == 1 and isinstance(n.targets[0], ast.Name) \
                and unparse(n.value) == expr_src:
            out.add(n.targets[0].id)
    return out


def _table_loops(fi):
    q = _qparam(fi)
    tables = _aliases(fi, f'{q}.table')
    return [n for n in ast.walk(fi.node) if isinstance(n, ast.For) and unparse(n.iter) in tables]


def _classify_loops(fi):
    agg, plain = [], []
    for lp in _table_loops(fi):
        src = unparse(lp)
        if '.update(' in src:
            agg.append(lp)
        else:
            plain.append(lp)
    if len(agg) != 1 or len(plain) != 1:
        raise AnalysisError(f'{fi.fq}: expected one aggregate and one non-aggregate scan of the table, found '
                            f'{len(agg)} and {len(plain)}: shape not understood')
    return plain[0], agg[0]


def _rows_var(fi):
    """The result-list variable: the name returned (inside list(...)) at the end."""
    body = body_without_docstring(fi.node)
    ret = body[-1]
    if not isinstance(ret, ast.Return) or not isinstance(ret.value, ast.Tuple) or len(ret.value.elts) != 2:
        raise AnalysisError(f'{fi.fq}: final `return description, rows` not found')
    v = ret.value.elts[1]
    if isinstance(v, ast.Call) and unparse(v.func) == 'list' and len(v.args) == 1:
        v = v.args[0]
    if isinstance(v, (ast.ListComp, ast.GeneratorExp)) and len(v.generators) == 1 and isinstance(v.generators[0].iter, ast.Name):
        # the final projection folded into the return statement
        return v.generators[0].iter.id, ret
    if not isinstance(v, ast.Name):
        raise AnalysisError(f'{fi.fq}: returned rows are not a plain variable')
    return v.id, ret


def _where_var(fi):
    q = _qparam(fi)
    names = _aliases(fi, f'{q}.c_where')
    return names


def _gate_check(fi, loop, rowsvar, where_names, wanted_event, res, construct, rule_detail):
    """Run the loop body over c_where in {absent, present} x result in {NULL, false, true}."""
    wn = sorted(where_names, key=len)[0]
    target = loop.target.id if isinstance(loop.target, ast.Name) else None
    if target is None:
        raise AnalysisError(f'{fi.fq}: table loop target is not a name')
    ok = True
    for present in (False, True):
        for cls in ((None, False, True) if present else (None,)):
            names = {}
            for w in where_names:
                names[w] = None if not present else finite.Sym('W')
            tr = Tracer(classes={w: cls for w in where_names}, names=names)
            st = {target: finite.Sym('ROW')}
            try:
                tr.run(loop.body, st)
            except finite.Continue:
                pass
            except finite.Return:
                pass
            passed = any(wanted_event(e) for e in tr.events)
            # the WHERE node must be applied to the loop variable itself
            for e in tr.events:
                if e[0] == 'call' and e[1] in where_names and e[2] != (target,):
                    res.fail(construct, rule_detail + ':where-arg',
                             f'the WHERE condition is evaluated on `{", ".join(e[2])}`, not on the current row `{target}`',
                             loc(fi, loop))
                    ok = False
            want = (not present) or (cls is True)
            if passed != want:
                desc = 'absent' if not present else {None: 'NULL', False: 'false', True: 'true'}[cls]
                res.fail(construct, rule_detail + ':gate',
                         f'with the WHERE condition {desc} the row is {"kept" if passed else "dropped"}; the statement '
                         f'requires it to be {"kept" if want else "dropped"} (NULL and false both exclude)', loc(fi, loop))
                ok = False
    return ok


def rule_rowloop(P) -> RuleResult:
    res = RuleResult('R-ROWLOOP')
    fi = _select_fn(P)
    plain, agg = _classify_loops(fi)
    rows, _ = _rows_var(fi)
    where = _where_var(fi)
    q = _qparam(fi)
    construct = fi.fq + ':non-aggregate-scan'
    if not where - {f'{q}.c_where'} and f'{q}.c_where' not in unparse(plain):
        raise AnalysisError(f'{fi.fq}: WHERE node variable not found')
    target = plain.target.id
    # (1) gate
    ok = _gate_check(fi, plain, rows, where,
                     lambda e: e[0] == 'append' and e[1] == rows, res, construct, 'rowloop')
    # (2) exactly one append per iteration, outside any inner loop
    appends = [n for n in ast.walk(plain) if isinstance(n, ast.Call) and isinstance(n.func, ast.Attribute)
               and n.func.attr in ('append', 'extend', 'insert') and unparse(n.func.value) == rows]
    inner_loops = [n for n in ast.walk(plain) if isinstance(n, (ast.For, ast.While)) and n is not plain]
    if len(appends) != 1 or appends[0].func.attr != 'append':
        res.fail(construct, 'rowloop:append', f'the scan must append exactly one row per qualifying source row; found '
                 f'{len(appends)} append/extend/insert sites', loc(fi, plain))
        ok = False
    else:
        for lp in inner_loops:
            if any(n is appends[0] for n in ast.walk(lp)):
                res.fail(construct, 'rowloop:append', 'the row append sits in an inner loop (more than one row per source row)',
                         loc(fi, plain))
                ok = False
        # (3) the appended row: every target expression applied to the same loop variable, in list order
        val = appends[0].args[0]
        if isinstance(val, ast.Name):
            defs = [n for n in ast.walk(plain) if isinstance(n, ast.Assign) and len(n.targets) == 1
                    and isinstance(n.targets[0], ast.Name) and n.targets[0].id == val.id]
            if len(defs) == 1:
                val = defs[0].value
        exprs_var = None
        if isinstance(val, (ast.ListComp, ast.GeneratorExp)) or (isinstance(val, ast.Call) and unparse(val.func) in ('list', 'tuple')
                                                                  and val.args and isinstance(val.args[0], (ast.ListComp, ast.GeneratorExp))):
            comp = val if isinstance(val, (ast.ListComp, ast.GeneratorExp)) else val.args[0]
            gen = comp.generators[0]
            if (len(comp.generators) == 1 and not gen.ifs and isinstance(gen.target, ast.Name)
                    and isinstance(comp.elt, ast.Call) and unparse(comp.elt.func) == gen.target.id
                    and [unparse(a) for a in comp.elt.args] == [target] and isinstance(gen.iter, ast.Name)):
                exprs_var = gen.iter.id
            else:
                res.fail(construct, 'rowloop:values',
                         f'the result row must be [expr({target}) for expr in <all target expressions>]; found `{unparse(comp)}`',
                         loc(fi, plain))
                ok = False
        else:
            raise AnalysisError(f'{fi.fq}: row value `{unparse(val)}` is not a comprehension over the target expressions')
        if exprs_var is not None:
            defs = [n for n in ast.walk(fi.node) if isinstance(n, ast.Assign) and len(n.targets) == 1
                    and isinstance(n.targets[0], ast.Name) and n.targets[0].id == exprs_var]
            good = False
            if len(defs) == 1 and isinstance(defs[0].value, ast.ListComp):
                c = defs[0].value
                g = c.generators[0]
                good = (len(c.generators) == 1 and not g.ifs and unparse(g.iter) == f'{q}.c_targets'
                        and isinstance(g.target, ast.Name) and unparse(c.elt) == f'{g.target.id}.c_expr')
            if not good:
                res.fail(construct, 'rowloop:targets',
                         f'`{exprs_var}` must be the expression of every target of {q}.c_targets in order', loc(fi, plain))
                ok = False
    if ok:
        res.ok({'loop': f'for {target} in {unparse(plain.iter)}', 'gate': 'absent or truthy', 'append': 'once per row',
                'cases': 4})
    return res


# ----------------------------------------------------------------------
# R-AGGPROTO

def rule_aggproto(P) -> RuleResult:
    res = RuleResult('R-AGGPROTO')
    fi = _select_fn(P)
    plain, agg = _classify_loops(fi)
    rows, _ = _rows_var(fi)
    q = _qparam(fi)
    where = _where_var(fi)
    construct = fi.fq + ':aggregate-branch'
    target = agg.target.id if isinstance(agg.target, ast.Name) else None

    def fail(detail, msg, node=None):
        res.fail(construct, 'aggproto:' + detail, msg, loc(fi, node or agg))

    # the list L of aggregate nodes: the variable iterated where .update( is called
    upd_loops = [n for n in ast.walk(agg) if isinstance(n, ast.For) and n is not agg and '.update(' in unparse(n)]
    if len(upd_loops) != 1 or not isinstance(upd_loops[0].iter, ast.Name):
        raise AnalysisError(f'{fi.fq}: aggregate update loop not found: shape not understood')
    L = upd_loops[0].iter.id
    n0 = len(res.findings)

    # (d) gate + update of every element with the store looked up by this row's key
    _gate_check(fi, agg, rows, where, lambda e: e[0] == 'call' and e[1].endswith('.update'), res, construct, 'aggproto')
    ul = upd_loops[0]
    calls = [n for n in ast.walk(ul) if isinstance(n, ast.Call) and isinstance(n.func, ast.Attribute) and n.func.attr == 'update']
    storevar = None
    if len(calls) != 1 or unparse(calls[0].func.value) != ul.target.id or len(calls[0].args) != 2 \
            or unparse(calls[0].args[1]) != target:
        fail('update', f'every aggregate node must be updated with (store, {target}); found `{unparse(calls[0]) if calls else "nothing"}`', ul)
    if calls and calls[0].args:
        storevar = unparse(calls[0].args[0])
    # store = aggregates[key]; key = tuple(c_expr(context) for c_expr in NONAGG)
    container = keyvar = None
    for n in ast.walk(agg):
        if isinstance(n, ast.Assign) and len(n.targets) == 1 and storevar and unparse(n.targets[0]) == storevar:
            v = n.value
            if isinstance(v, ast.Subscript) and isinstance(v.value, ast.Name):
                container, keyvar = v.value.id, unparse(v.slice)
            elif isinstance(v, ast.Call) and isinstance(v.func, ast.Attribute) and v.func.attr == 'setdefault' \
                    and isinstance(v.func.value, ast.Name):
                container, keyvar = v.func.value.id, unparse(v.args[0])
    if container is None:
        raise AnalysisError(f'{fi.fq}: per-group store lookup not found: shape not understood')
    keydefs = [n for n in ast.walk(agg) if isinstance(n, ast.Assign) and len(n.targets) == 1 and unparse(n.targets[0]) == keyvar]
    nonagg = None
    if len(keydefs) == 1 and isinstance(keydefs[0].value, ast.Call) and unparse(keydefs[0].value.func) == 'tuple' \
            and keydefs[0].value.args and isinstance(keydefs[0].value.args[0], (ast.GeneratorExp, ast.ListComp)):
        comp = keydefs[0].value.args[0]
        g = comp.generators[0]
        if (len(comp.generators) == 1 and not g.ifs and isinstance(comp.elt, ast.Call)
                and unparse(comp.elt.func) == unparse(g.target) and [unparse(a) for a in comp.elt.args] == [target]
                and isinstance(g.iter, ast.Name)):
            nonagg = g.iter.id
        else:
            fail('key', f'the group key must be the tuple of every non-aggregate expression evaluated on `{target}`; '
                 f'found `{unparse(comp)}`', keydefs[0])
    else:
        raise AnalysisError(f'{fi.fq}: group key computation not understood')

    # (c) the container: insertion-ordered mapping created with a factory, iterated with .items(), not sorted
    cdefs = [n for n in ast.walk(fi.node) if isinstance(n, ast.Assign) and len(n.targets) == 1
             and unparse(n.targets[0]) == container]
    factory = None
    if len(cdefs) != 1:
        raise AnalysisError(f'{fi.fq}: group container `{container}` must be defined once')
    cv = cdefs[0].value
    if isinstance(cv, ast.Call) and unparse(cv.func) in ('collections.defaultdict', 'defaultdict') and len(cv.args) == 1 \
            and isinstance(cv.args[0], ast.Name):
        factory = cv.args[0].id
    elif isinstance(cv, ast.Dict) and not cv.keys or (isinstance(cv, ast.Call) and unparse(cv.func) == 'dict' and not cv.args):
        # dict + setdefault(key, create())
        for n in ast.walk(agg):
            if isinstance(n, ast.Call) and isinstance(n.func, ast.Attribute) and n.func.attr == 'setdefault' \
                    and len(n.args) == 2 and isinstance(n.args[1], ast.Call) and isinstance(n.args[1].func, ast.Name):
                factory = n.args[1].func.id
    else:
        fail('container', f'groups must be kept in an insertion-ordered mapping (dict/defaultdict); found `{unparse(cv)}`', cdefs[0])
    out_loops = [n for n in ast.walk(fi.node) if isinstance(n, ast.For) and container in {x.id for x in ast.walk(n.iter) if isinstance(x, ast.Name)}]
    if len(out_loops) != 1:
        raise AnalysisError(f'{fi.fq}: output loop over the groups not found')
    ol = out_loops[0]
    if unparse(ol.iter) != f'{container}.items()':
        fail('order', f'groups must be output in order of first appearance: iterate `{container}.items()` as is; found '
             f'`{unparse(ol.iter)}`', ol)
    okey = ostore = None
    if isinstance(ol.target, ast.Tuple) and len(ol.target.elts) == 2:
        okey, ostore = (unparse(x) for x in ol.target.elts)
    else:
        raise AnalysisError(f'{fi.fq}: output loop target is not (key, store)')

    # (a) allocate on every element of L before the container is created
    alloc_loops = [n for n in body_without_docstring(fi.node) for m in [n] if False]
    alloc = [n for n in ast.walk(fi.node) if isinstance(n, ast.For) and '.allocate(' in unparse(n)]
    if len(alloc) != 1 or unparse(alloc[0].iter) != L:
        fail('allocate', f'every aggregate node of `{L}` must be given a slot before aggregation (allocate loop over {L})',
             alloc[0] if alloc else None)
    elif alloc[0].lineno > cdefs[0].lineno:
        fail('allocate', 'slots must be allocated before the first store is created', alloc[0])
    # (b) the store factory initialises every element of L
    fdef = None
    if factory:
        fdef = fi.module.functions.get(f'{fi.qualname}.<locals>.{factory}')
    if fdef is None:
        raise AnalysisError(f'{fi.fq}: store factory `{factory}` not found')
    init_loops = [n for n in ast.walk(fdef.node) if isinstance(n, ast.For) and '.initialize(' in unparse(n)]
    if len(init_loops) != 1 or unparse(init_loops[0].iter) != L:
        fail('initialize', f'a new group store must initialise every aggregate node of `{L}`; found '
             f'`for ... in {unparse(init_loops[0].iter) if init_loops else "?"}`', fdef.node)
    else:
        icalls = [n for n in ast.walk(init_loops[0]) if isinstance(n, ast.Call) and isinstance(n.func, ast.Attribute)
                  and n.func.attr == 'initialize']
        rets = [n for n in ast.walk(fdef.node) if isinstance(n, ast.Return)]
        if len(icalls) != 1 or len(rets) != 1 or unparse(icalls[0].args[0]) != unparse(rets[0].value):
            fail('initialize', 'the factory must initialise and return the same fresh store', fdef.node)
        sdef = [n for n in ast.walk(fdef.node) if isinstance(n, ast.Assign) and rets and unparse(n.targets[0]) == unparse(rets[0].value)]
        if not sdef or 'create_store' not in unparse(sdef[0].value):
            fail('initialize', 'every group needs a fresh store from the allocator', fdef.node)
    # (e) output loop: finalize every element of L with this group's store, before any target is evaluated
    fin = [n for n in ast.walk(ol) if isinstance(n, ast.For) and n is not ol and '.finalize(' in unparse(n)]
    tgt_loops = [n for n in ast.walk(ol) if isinstance(n, ast.For) and n is not ol and '.finalize(' not in unparse(n)]
    if len(fin) != 1 or unparse(fin[0].iter) != L:
        fail('finalize', f'every aggregate node of `{L}` must be finalised for each group before the output row is computed', ol)
    else:
        fc = [n for n in ast.walk(fin[0]) if isinstance(n, ast.Call) and isinstance(n.func, ast.Attribute) and n.func.attr == 'finalize']
        if len(fc) != 1 or [unparse(a) for a in fc[0].args] != [ostore]:
            fail('finalize', f'aggregates must be finalised from this group\'s store `{ostore}`; found `{unparse(fc[0]) if fc else "?"}`', fin[0])
        # is the finalize loop a direct child of the output loop and before the value loop?
        if fin[0] not in ol.body:
            fail('finalize', 'the finalize loop must run once per group (directly inside the group loop)', fin[0])
        for tl in tgt_loops:
            if tl in ol.body and ol.body.index(tl) < ol.body.index(fin[0]) if fin[0] in ol.body else False:
                fail('finalize', 'target expressions are evaluated before the aggregates of the group are finalised', tl)
    fin_outside = [n for n in ast.walk(fi.node) if isinstance(n, ast.Call) and isinstance(n.func, ast.Attribute)
                   and n.func.attr == 'finalize' and not any(n is m for m in ast.walk(ol))]
    if fin_outside:
        fail('finalize', 'aggregates are finalised outside the per-group loop', fin_outside[0])
    # (f) HAVING: rows whose having value is falsy are skipped, test placed before the append
    apps = [n for n in ast.walk(ol) if isinstance(n, ast.Call) and isinstance(n.func, ast.Attribute)
            and n.func.attr == 'append' and unparse(n.func.value) == rows]
    if len(apps) != 1:
        fail('append', f'exactly one output row per group must be appended to `{rows}`', ol)
    else:
        valvar = unparse(apps[0].args[0])
        for present in (False, True):
            for cls in ((None, False, True) if present else (None,)):
                hv = f'{q}.having_index'
                tr = Tracer(names={hv: (finite.Sym('HI') if present else None), okey: finite.Sym('KEY'), ostore: finite.Sym('ST'),
                                   q: finite.Sym('Q'), rows: finite.Sym('ROWS'), 'group_indexes': finite.Sym('GI')})
                orig_expr = tr.expr

                def expr(e, st, m, _cls=cls, _orig=orig_expr, _hv=hv, _valvar=valvar):
                    if isinstance(e, ast.Subscript) and unparse(e.slice) == _hv and unparse(e.value) == _valvar:
                        return _cls
                    return _orig(e, st, m)
                tr.expr = expr
                try:
                    hidx = [i for i, s in enumerate(ol.body) if hv in unparse(s)]
                    body = ol.body[hidx[0]:] if hidx else [s for s in ol.body if rows in unparse(s)]
                    tr.run(body, {valvar: ()})
                except finite.Continue:
                    pass
                except AnalysisError:
                    raise
                passed = any(e[0] == 'append' and e[1] == rows for e in tr.events)
                want = (not present) or cls is True
                if passed != want:
                    desc = 'absent' if not present else {None: 'NULL', False: 'false', True: 'true'}[cls]
                    fail('having', f'with HAVING {desc} the group row is {"kept" if passed else "dropped"}, expected '
                         f'{"kept" if want else "dropped"}', ol)
    # (g) layout of the key tuple: produced and consumed over the same sequence with the same filter
    src = unparse(ol)
    consumer = None
    for n in ast.walk(ol):
        if isinstance(n, ast.For) and n is not ol and isinstance(n.iter, ast.Call) and unparse(n.iter.func) == 'enumerate':
            for t in n.body:
                if isinstance(t, ast.If) and 'next(' in unparse(t.body) and isinstance(t.test, ast.Compare) \
                        and isinstance(t.test.ops[0], ast.In):
                    consumer = (unparse(n.iter.args[0]), unparse(t.test.comparators[0]), unparse(t.test.left),
                                unparse(n.target.elts[0]) if isinstance(n.target, ast.Tuple) else None)
    if consumer is None or f'iter({okey})' not in src:
        raise AnalysisError(f'{fi.fq}: the way group-key values are put back into the output row is not understood')
    ctargets, cgi, cleft, cidx = consumer
    if cleft != cidx:
        fail('key-layout', f'group-key values are consumed under the test `{cleft} in {cgi}`, not by target position')
    gidefs = [n for n in ast.walk(fi.node) if isinstance(n, ast.Assign) and unparse(n.targets[0]) == cgi]
    gi_is_set = bool(gidefs) and all('set(' in unparse(d.value) for d in gidefs)
    # producer of the key: the list iterated to compute `key`
    pdefs = [n for n in ast.walk(fi.node) if isinstance(n, ast.Assign) and nonagg and unparse(n.targets[0]) == nonagg]
    appended = [n for n in ast.walk(fi.node) if isinstance(n, ast.For) and nonagg and f'{nonagg}.append(' in unparse(n)]
    layout_ok = None
    if appended and len(pdefs) == 1 and unparse(pdefs[0].value) == '[]':
        pl0 = appended[0]
        tests = [t for t in pl0.body if isinstance(t, ast.If) and f'{nonagg}.append(' in unparse(t.body)]
        if (isinstance(pl0.iter, ast.Call) and unparse(pl0.iter.func) == 'enumerate' and unparse(pl0.iter.args[0]) == ctargets
                and len(tests) == 1 and isinstance(tests[0].test, ast.Compare) and isinstance(tests[0].test.ops[0], ast.In)
                and unparse(tests[0].test.comparators[0]) == cgi
                and unparse(tests[0].test.left) == unparse(pl0.target.elts[0])):
            layout_ok = True
        else:
            layout_ok = False
    elif len(pdefs) == 1 and isinstance(pdefs[0].value, ast.ListComp):
        c = pdefs[0].value
        g = c.generators[0]
        if unparse(c.elt) == f'{ctargets}[{unparse(g.target)}]' and unparse(g.iter) == cgi and not g.ifs:
            # one key item per element of the index collection, in its order: equals the consumption order only when
            # that collection holds each grouped target once, in target order
            srcs = [unparse(d.value) for d in gidefs]
            layout_ok = bool(srcs) and all(re.search(r'sorted\(set\(', x) for x in srcs)
        else:
            layout_ok = False
    if layout_ok is None:
        raise AnalysisError(f'{fi.fq}: construction of the group-key expression list `{nonagg}` is not understood')
    if not layout_ok:
        fail('key-layout', f'the group key is built from `{nonagg}` in an order / multiplicity that differs from the way the output '
             f'loop reads it back (one item per target whose index is in {cgi}, in target order): with a GROUP BY that names a target '
             f'twice or out of order, key values land in the wrong columns')
    # nonagg / L provenance: partition of the targets by membership in group_indexes
    part = [n for n in ast.walk(fi.node) if isinstance(n, ast.For) and nonagg and f'{nonagg}.append(' in unparse(n)
            and f'{L}.extend(' in unparse(n)]
    if len(part) != 1:
        res.info('partition loop of targets into group keys and aggregates not recognised (not judged)')
    else:
        pl = part[0]
        tests = [n for n in pl.body if isinstance(n, ast.If)]
        if len(tests) == 1 and 'in group_indexes' in unparse(tests[0].test) and 'not in' not in unparse(tests[0].test) \
                and f'{nonagg}.append(' in unparse(tests[0].body) and f'{L}.extend(' in unparse(tests[0].orelse):
            pass
        else:
            fail('partition', 'targets must be split into group keys (index in group_indexes) and aggregate expressions', pl)
    if len(res.findings) == n0:
        res.ok({'aggregate_list': L, 'key_exprs': nonagg, 'container': container, 'factory': factory,
                'clauses': ['allocate', 'initialize', 'ordered-container', 'update-under-gate', 'finalize-per-group',
                            'having', 'single-append'], 'gate_cases': 4, 'having_cases': 4})
    return res


# ----------------------------------------------------------------------
# R-PIPELINE / R-SORTSKEL

def _tail_stages(fi):
    """Top-level statements after the row stage, classified."""
    rows, ret = _rows_var(fi)
    q = _qparam(fi)
    body = body_without_docstring(fi.node)
    # the row stage ends at the last top-level statement containing a scan of the table
    last = max(i for i, s in enumerate(body) if any(isinstance(n, ast.For) and n in _table_loops(fi) for n in ast.walk(s)))
    stages = []
    for s in body[last + 1:]:
        src = unparse(s)
        kind = None
        if s is ret:
            rv = ret.value.elts[1]
            if isinstance(rv, ast.Call) and unparse(rv.func) == 'list' and rv.args:
                rv = rv.args[0]
            if isinstance(rv, (ast.ListComp, ast.GeneratorExp)):
                # projection performed by the return expression itself
                stages.append(('PROJECT', ast.Assign(targets=[ast.Name(id=rows, ctx=ast.Store())], value=rv, lineno=ret.lineno)))
            kind = 'RETURN'
        elif '.sort(' in src or 'sorted(' in src:
            kind = 'SORT'
        elif 'uniquify(' in src or 'dict.fromkeys' in src or 'seen' in src:
            kind = 'DISTINCT'
        elif 'islice(' in src or f'{q}.limit' in src:
            kind = 'LIMIT'
        elif isinstance(s, ast.Assign) and unparse(s.targets[0]) == rows:
            kind = 'PROJECT'
        elif isinstance(s, (ast.Assign, ast.Expr)) and rows not in {n.id for n in ast.walk(s) if isinstance(n, ast.Name)}:
            kind = 'OTHER'
        else:
            kind = 'UNKNOWN'
        stages.append((kind, s))
    return rows, q, stages


def rule_pipeline(P) -> RuleResult:
    res = RuleResult('R-PIPELINE')
    fi = _select_fn(P)
    rows, q, stages = _tail_stages(fi)
    construct = fi.fq + ':result-pipeline'
    kinds = [k for k, _ in stages if k != 'OTHER']
    if 'UNKNOWN' in kinds:
        bad = next(s for k, s in stages if k == 'UNKNOWN')
        raise AnalysisError(f'{fi.fq}: statement `{unparse(bad)[:60]}` touches the result rows in a way the rule does not '
                            f'understand')
    want = ['SORT', 'PROJECT', 'DISTINCT', 'LIMIT', 'RETURN']
    n0 = len(res.findings)
    for k in want:
        if kinds.count(k) != 1:
            if kinds.count(k) == 0 and k in ('SORT', 'DISTINCT', 'LIMIT'):
                res.fail(construct, f'missing:{k}', f'the {k} stage is missing from the result pipeline', loc(fi))
            elif kinds.count(k) == 0:
                raise AnalysisError(f'{fi.fq}: {k} stage not recognised')
            else:
                res.fail(construct, f'twice:{k}', f'the {k} stage is applied {kinds.count(k)} times', loc(fi))
    if not res.findings[n0:] and kinds != want:
        res.fail(construct, 'order', f'stages run in the order {" -> ".join(kinds)}; ORDER BY, projection to the visible '
                 f'columns, DISTINCT and LIMIT must apply in the order {" -> ".join(want)}', loc(fi, stages[0][1]))
    by = {k: s for k, s in stages}
    # SORT gate: order_spec is not None
    s = by.get('SORT')
    if s is not None:
        if not (isinstance(s, ast.If) and not s.orelse):
            raise AnalysisError(f'{fi.fq}: sort stage is not an `if <order spec present>:` block')
        t = unparse(s.test)
        spec_names = _aliases(fi, f'{q}.order_spec')
        if not any(t in (f'{n} is not None', f'{n}') for n in spec_names):
            res.fail(construct, 'sort-gate', f'the sort stage must run whenever an ORDER BY is present; gate is `{t}`', loc(fi, s))
    # PROJECT: tuple(row[i] for i in result_indexes) for row in rows
    s = by.get('PROJECT')
    if s is not None:
        v = s.value
        good = False
        idxvar = None
        if isinstance(v, (ast.GeneratorExp, ast.ListComp)) and len(v.generators) == 1 and unparse(v.generators[0].iter) == rows \
                and not v.generators[0].ifs:
            rowv = unparse(v.generators[0].target)
            elt = v.elt
            if isinstance(elt, ast.Call) and unparse(elt.func) == 'tuple' and elt.args and isinstance(elt.args[0], (ast.GeneratorExp, ast.ListComp)):
                inner = elt.args[0]
                g = inner.generators[0]
                if len(inner.generators) == 1 and not g.ifs and unparse(inner.elt) == f'{rowv}[{unparse(g.target)}]' \
                        and isinstance(g.iter, ast.Name):
                    good = True
                    idxvar = g.iter.id
        if not good:
            res.fail(construct, 'project', f'projection must be tuple(row[i] for i in <visible indexes>) for every row; found '
                     f'`{unparse(v)[:80]}`', loc(fi, s))
        else:
            res.ok({'stage': 'PROJECT', 'indexes': idxvar})
    # DISTINCT gate: truthiness of query.distinct; applies uniquify to rows
    s = by.get('DISTINCT')
    if s is not None:
        if not (isinstance(s, ast.If) and not s.orelse and len(s.body) == 1 and isinstance(s.body[0], ast.Assign)):
            raise AnalysisError(f'{fi.fq}: DISTINCT stage shape not understood')
        if unparse(s.test) not in (f'{q}.distinct', f'{q}.distinct is True', f'{q}.distinct is not None'):
            res.fail(construct, 'distinct-gate', f'DISTINCT must apply exactly when requested; gate is `{unparse(s.test)}`', loc(fi, s))
        a = s.body[0]
        if not (unparse(a.targets[0]) == rows and isinstance(a.value, ast.Call) and [unparse(x) for x in a.value.args] == [rows]):
            res.fail(construct, 'distinct', f'DISTINCT must de-duplicate the projected rows as they are; found `{unparse(a)}`', loc(fi, s))
        else:
            callee = unparse(a.value.func)
            tgt = P.lookup(fi.module.dotted(a.value.func) or '')
            if not (isinstance(tgt, FuncInfo) and tgt.name == 'uniquify'):
                raise AnalysisError(f'{fi.fq}: DISTINCT implemented by `{callee}`, which the rule does not know')
            res.ok({'stage': 'DISTINCT', 'callee': tgt.fq})
    # LIMIT gate: `is not None` (LIMIT 0 must cut to nothing) and the bound is query.limit itself
    s = by.get('LIMIT')
    if s is not None:
        if not (isinstance(s, ast.If) and not s.orelse and len(s.body) == 1 and isinstance(s.body[0], ast.Assign)):
            raise AnalysisError(f'{fi.fq}: LIMIT stage shape not understood')
        if unparse(s.test) != f'{q}.limit is not None':
            res.fail(construct, 'limit-gate', f'LIMIT must apply whenever a limit is given, including LIMIT 0: the gate must be '
                     f'`{q}.limit is not None`, found `{unparse(s.test)}`', loc(fi, s))
        a = s.body[0]
        v = a.value
        if isinstance(v, ast.Call) and unparse(v.func) == 'list' and v.args:
            v = v.args[0]
        good = (unparse(a.targets[0]) == rows and isinstance(v, ast.Call)
                and fi.module.dotted(v.func) == 'itertools.islice' and [unparse(x) for x in v.args] == [rows, f'{q}.limit'])
        if not good:
            if isinstance(v, ast.Subscript) and unparse(v.value) == rows and unparse(v.slice) == f':{q}.limit':
                good = True
        if not good:
            res.fail(construct, 'limit', f'LIMIT n must keep the first n rows: islice(rows, {q}.limit); found `{unparse(a)}`', loc(fi, s))
        else:
            res.ok({'stage': 'LIMIT', 'bound': f'{q}.limit'})
    # the visible-index list used by PROJECT is checked by R-VISFILTER (C07)
    if len(res.findings) == n0:
        res.ok({'order': kinds})
    return res


def rule_sortskel(P) -> RuleResult:
    res = RuleResult('R-SORTSKEL')
    fi = _select_fn(P)
    rows, q, stages = _tail_stages(fi)
    construct = fi.fq + ':sort-stage'
    s = next((st for k, st in stages if k == 'SORT'), None)
    if s is None:
        raise AnalysisError(f'{fi.fq}: no sort stage')
    loops = [n for n in ast.walk(s) if isinstance(n, ast.For)]
    if len(loops) != 1:
        raise AnalysisError(f'{fi.fq}: the sort stage is not the multi-pass loop this rule understands')
    lp = loops[0]
    it = lp.iter
    if not (isinstance(it, ast.Call) and fi.module.dotted(it.func) == 'itertools.groupby'):
        raise AnalysisError(f'{fi.fq}: the sort passes are not grouped with itertools.groupby: shape not understood')
    n0 = len(res.findings)
    spec_names = _aliases(fi, f'{q}.order_spec')
    # passes from the last key to the first
    a0 = it.args[0] if it.args else None
    if not (isinstance(a0, ast.Call) and unparse(a0.func) == 'reversed' and unparse(a0.args[0]) in spec_names):
        res.fail(construct, 'pass-order', 'stable multi-pass sorting must process the ORDER BY keys from the last to the '
                 f'first: groupby(reversed(order_spec), ...); found `{unparse(a0) if a0 is not None else "?"}`', loc(fi, lp))
    # grouped by direction (element 1 of each spec item)
    key = next((k.value for k in it.keywords if k.arg == 'key'), it.args[1] if len(it.args) > 1 else None)
    kd = unparse(key) if key is not None else ''
    if not (kd in ('operator.itemgetter(1)', 'itemgetter(1)') or kd.replace(' ', '') in ('lambdax:x[1]', 'lambdas:s[1]', 'lambdai:i[1]')):
        res.fail(construct, 'run-key', f'runs must be formed by the direction of each key (item 1 of the order spec); found key `{kd}`', loc(fi, lp))
    if not (isinstance(lp.target, ast.Tuple) and len(lp.target.elts) == 2):
        raise AnalysisError(f'{fi.fq}: sort loop target is not (direction, run)')
    dirvar, runvar = (unparse(x) for x in lp.target.elts)
    # inside a run the keys are put back in left-to-right order
    idx_defs = [n for n in lp.body if isinstance(n, ast.Assign)]
    sort_calls = [n for n in ast.walk(lp) if isinstance(n, ast.Call) and isinstance(n.func, ast.Attribute) and n.func.attr == 'sort'
                  and unparse(n.func.value) == rows]
    if len(sort_calls) != 1:
        raise AnalysisError(f'{fi.fq}: expected one in-place `{rows}.sort(...)` per run')
    sc = sort_calls[0]
    kw = {k.arg: k.value for k in sc.keywords}
    if 'reverse' not in kw or unparse(kw['reverse']) != dirvar:
        res.fail(construct, 'direction', f'each pass must sort in the direction of its run: reverse={dirvar}; found '
                 f'`reverse={unparse(kw["reverse"]) if "reverse" in kw else "<absent>"}`', loc(fi, sc))
    kf = kw.get('key')
    if kf is None:
        res.fail(construct, 'key', 'the sort passes have no key function', loc(fi, sc))
    else:
        tgt = P.lookup(fi.module.dotted(kf.func) or '') if isinstance(kf, ast.Call) else None
        if not (isinstance(tgt, FuncInfo) and tgt.name == 'nullitemgetter'):
            res.fail(construct, 'key', f'sort keys may hold NULL: the key function must be the NULL-smallest getter '
                     f'(nullitemgetter); found `{unparse(kf)}`', loc(fi, sc))
        else:
            arg = kf.args[0] if kf.args else None
            if not (isinstance(arg, ast.Starred) and isinstance(arg.value, ast.Name)):
                raise AnalysisError(f'{fi.fq}: key indexes argument not understood')
            iv = arg.value.id
            d = [n for n in idx_defs if unparse(n.targets[0]) == iv]
            if len(d) != 1:
                raise AnalysisError(f'{fi.fq}: definition of `{iv}` not found in the pass body')
            v = d[0].value
            comp = None
            rev = 0
            while isinstance(v, ast.Call) and unparse(v.func) in ('reversed', 'list', 'tuple') and v.args:
                if unparse(v.func) == 'reversed':
                    rev += 1
                v = v.args[0]
            if isinstance(v, (ast.ListComp, ast.GeneratorExp)):
                comp = v
            if comp is None or unparse(comp.generators[0].iter) != runvar:
                raise AnalysisError(f'{fi.fq}: key index list not understood')
            if rev % 2 != 1:
                res.fail(construct, 'key-order', 'keys of one run come out of the reversed order spec in right-to-left order and '
                         'must be reversed back, so that the leftmost key is the most significant', loc(fi, d[0]))
            if unparse(comp.elt) != f'{unparse(comp.generators[0].target)}[0]':
                res.fail(construct, 'key-index', f'the sort key must be the target index (item 0 of each order spec item); '
                         f'found `{unparse(comp.elt)}`', loc(fi, d[0]))
    if len(res.findings) == n0:
        res.ok({'passes': 'groupby(reversed(order_spec), key=direction)', 'per_run': 'reversed back, stable list.sort, '
                'reverse=direction, key=nullitemgetter'})
    return res


# ----------------------------------------------------------------------
# R-NULLKEY  (finite)

NULLM = finite.Sym('NULL')
VV = finite.Sym('V')


def rule_nullkey(P) -> RuleResult:
    res = RuleResult('R-NULLKEY')
    res.exhaustive = True
    m = P.module(QX)
    # nullitemgetter: both closures replace None by NULL, keep everything else
    nig = P.func(QX, 'nullitemgetter')
    inner = [f for qn, f in m.functions.items() if qn.startswith('nullitemgetter.<locals>.')]
    if len(inner) < 2:
        raise AnalysisError('anchor vanished: the two closures of nullitemgetter')
    null_names = {n for n, v in m.assigns.items() if isinstance(v, ast.Call) and unparse(v.func) == 'NullType'}
    if not null_names:
        raise AnalysisError('anchor vanished: NULL = NullType()')
    for f in inner:
        fn = f.node
        param = f.params[0]
        multi = any(isinstance(s, ast.For) for s in fn.body)
        for cls in (None, VV, False, 0, finite.Falsy('ZERO')):
            def sub(e, st, mm, _cls=cls):
                return _cls
            mach = finite.Machine(subscript=sub, names={n: NULLM for n in null_names} | {param: finite.Sym('ROW'), 'items': finite.Sym('ITEMS')})
            mach.comprehensions = True
            want = NULLM if cls is None else cls
            try:
                if not multi and any(isinstance(x, (ast.GeneratorExp, ast.ListComp)) for x in ast.walk(fn)):
                    # comprehension form of the multi-key getter: the value of each element
                    mach.run(body_without_docstring(fn), {})
                    got = '?'
                elif multi:
                    pre, loop, post = finite.split_loop(fn)
                    st = mach.run(pre, {})
                    st = dict(st)
                    st[loop.target.id] = finite.Sym('I')
                    st = mach.run(loop.body, st)
                    got = [e[2] for e in mach.events if e[0] == 'append']
                    got = got[0] if len(got) == 1 else ('?', got)
                else:
                    mach.run(body_without_docstring(fn), {})
                    got = '?'
            except finite.Return as r:
                got = r.value
                if isinstance(got, finite.Each):
                    got = got.value
            if got is want or got == want and type(got) is type(want):
                res.ok({'getter': f.qualname, 'item': repr(cls), 'key': repr(got)})
            else:
                res.fail(f.fq, f'nullkey:{cls!r}', f'sort key for an item holding {cls!r} is {got!r}, must be '
                         f'{want!r} (NULL is replaced by the smallest marker, every other value is kept)', loc(f))
        if multi:
            pre, loop, post = finite.split_loop(fn)
            if not (post and isinstance(post[-1], ast.Return) and unparse(post[-1].value).startswith('tuple(')):
                res.fail(f.fq, 'nullkey:tuple', 'the multi-key getter must return the tuple of all keys', loc(f))
    # NullType ordering: the comparisons list.sort / tuple comparison can issue
    nt = P.cls(QX, 'NullType')
    for meth, other, want, why in (('__lt__', 'null', False, 'NULL < NULL is false (NULLs are equal)'),
                                   ('__lt__', 'value', True, 'NULL < value is true (NULL sorts first)'),
                                   ('__gt__', 'value', False, 'value < NULL (reflected NULL > value) is false')):
        f = nt.methods.get(meth)
        if f is None:
            res.fail(nt.fq, f'nulltype:{meth}', f'NullType lacks {meth}', loc(nt))
            continue
        mach = finite.Machine(isinstance_=lambda v, c, _o=other: (_o == 'null') if unparse(c) == 'NullType' else False,
                              names={f.params[0]: NULLM, f.params[1]: (NULLM if other == 'null' else VV)})
        try:
            mach.run(body_without_docstring(f.node), {})
            got = None
        except finite.Return as r:
            got = r.value
        if got is want:
            res.ok({'method': f'NullType.{meth}', 'other': other, 'result': got})
        else:
            res.fail(f.fq, f'nulltype:{meth}:{other}', f'{why}; the method returns {got!r}', loc(f))
    if '__eq__' in nt.methods or '__hash__' in nt.methods:
        res.info('NullType defines __eq__/__hash__: identity equality of the NULL singleton is no longer implied (not judged)')
    # uniquify: yields an object iff not seen, records everything it yields
    uq = P.func(QX, 'uniquify')
    pre, loop, post = finite.split_loop(uq.node)
    for seen in (False, True):
        m2 = finite.Machine(contains=lambda left, c, st, _s=seen: _s, call=lambda e, st, mm: finite.Sym('C'),
                            names={'seen': finite.Sym('SEEN')})
        st = {loop.target.id: VV}
        for s in pre:
            if isinstance(s, ast.Assign) and isinstance(s.targets[0], ast.Name):
                st[s.targets[0].id] = finite.Sym(s.targets[0].id)
        try:
            m2.run(loop.body, st)
        except finite.Continue:
            pass
        ys = [e for e in m2.events if e[0] == 'yield']
        adds = [e for e in m2.events if e[0] == 'add']
        if seen and (ys or adds):
            res.fail(uq.fq, 'uniquify:seen', 'a row seen before is yielded again', loc(uq))
        elif not seen and not (len(ys) == 1 and ys[0][1] == VV and len(adds) == 1 and adds[0][2] == VV):
            res.fail(uq.fq, 'uniquify:new', 'a row not seen before must be yielded once and recorded as seen', loc(uq))
        else:
            res.ok({'uniquify': 'seen' if seen else 'new', 'yields': len(ys), 'records': len(adds)})
    return res


# ----------------------------------------------------------------------
# R-PRINTFILTER (C14)

def rule_printfilter(P) -> RuleResult:
    res = RuleResult('R-PRINTFILTER')
    fi = P.func(QX, 'execute_print')
    p0 = fi.params[0]
    loops = [n for n in ast.walk(fi.node) if isinstance(n, ast.For) and unparse(n.iter) in _aliases(fi, f'{p0}.table')]
    if len(loops) != 1:
        raise AnalysisError(f'{fi.fq}: scan of the table not found')
    lp = loops[0]
    where = _aliases(fi, f'{p0}.where')
    apps = [n for n in ast.walk(lp) if isinstance(n, ast.Call) and isinstance(n.func, ast.Attribute) and n.func.attr == 'append']
    if len(apps) != 1:
        raise AnalysisError(f'{fi.fq}: expected one append per row')
    lst = unparse(apps[0].func.value)
    construct = fi.fq
    ok = _gate_check(fi, lp, lst, where, lambda e: e[0] == 'append' and e[1] == lst, res, construct, 'print')
    if unparse(apps[0].args[0]) != f'{lp.target.id}.entry':
        res.fail(construct, 'print:value', f'PRINT must collect the directive of each selected row ({lp.target.id}.entry); '
                 f'found `{unparse(apps[0].args[0])}`', loc(fi, lp))
        ok = False
    pe = [n for n in ast.walk(fi.node) if isinstance(n, ast.Call) and unparse(n.func).endswith('print_entries')]
    if len(pe) != 1 or unparse(pe[0].args[0]) != lst:
        res.fail(construct, 'print:sink', 'the selected directives must be handed unmodified to printer.print_entries', loc(fi))
        ok = False
    # nothing reorders / filters the list between the loop and the printer
    for n in ast.walk(fi.node):
        if isinstance(n, ast.Call) and isinstance(n.func, ast.Attribute) and unparse(n.func.value) == lst \
                and n.func.attr in ('sort', 'reverse', 'pop', 'remove', 'clear', 'insert'):
            res.fail(construct, 'print:order', f'the list of directives is modified by `{unparse(n)}` before printing', loc(fi, n))
            ok = False
    if ok:
        res.ok({'loop': unparse(lp.iter), 'gate': 'absent or truthy', 'collects': f'{lp.target.id}.entry', 'cases': 4})
    return res


# ----------------------------------------------------------------------
# R-FROMAND (C01): the FROM expression is AND-ed with the WHERE expression

def _select_compiler(P):
    m = P.module('beanquery.compiler')
    for fi in m.functions.values():
        if fi.qualname.startswith('Compiler.') and any(
                isinstance(n, ast.Call) and unparse(n.func) == 'EvalQuery' for n in ast.walk(fi.node)) \
                and fi.qualname.count('.') == 1:
            return fi
    raise AnalysisError('anchor vanished: the Compiler method constructing EvalQuery')


def rule_fromand(P) -> RuleResult:
    res = RuleResult('R-FROMAND')
    res.exhaustive = True
    fi = _select_compiler(P)
    call = next(n for n in ast.walk(fi.node) if isinstance(n, ast.Call) and unparse(n.func) == 'EvalQuery')
    warg = call.args[2] if len(call.args) > 2 else next((k.value for k in call.keywords if k.arg == 'c_where'), None)
    if not isinstance(warg, ast.Name):
        raise AnalysisError(f'{fi.fq}: the WHERE argument of EvalQuery is not a variable')
    W = warg.id
    fdef = [n for n in fi.node.body if isinstance(n, ast.Assign) and isinstance(n.value, ast.Call)
            and unparse(n.value.func) == 'self._compile_from' and isinstance(n.targets[0], ast.Name)]
    if len(fdef) != 1:
        raise AnalysisError(f'{fi.fq}: `<var> = self._compile_from(...)` not found')
    F = fdef[0].targets[0].id
    sl = []
    for s in body_without_docstring(fi.node):
        names = {n.id for n in ast.walk(s) if isinstance(n, ast.Name)}
        stores = {n.id for n in ast.walk(s) if isinstance(n, ast.Name) and isinstance(n.ctx, ast.Store)}
        if s is fdef[0] or (stores & {W, F}) or (isinstance(s, ast.If) and (names & {W, F})):
            sl.append(s)
    FS, WS = finite.Sym('FROM'), finite.Sym('WHERE')
    construct = fi.fq
    ok = True
    for f in (None, FS):
        for w in (None, WS):
            def callh(e, st, m, _f=f, _w=w):
                src = unparse(e.func)
                if src == 'self._compile_from':
                    return _f
                if src == 'self._compile':
                    return _w
                if src == 'is_aggregate':
                    return False
                if src == 'EvalAnd' and len(e.args) == 1 and isinstance(e.args[0], (ast.List, ast.Tuple)):
                    return ('And',) + tuple(m.ev(x, st) for x in e.args[0].elts)
                if src[:1].isupper():
                    # some other node constructor: kept symbolic, compared with the specification below
                    return (src,) + tuple(unparse(a) for a in e.args)
                return NotImplemented
            mach = finite.Machine(call=callh, expr=lambda e, st, m: finite.Sym(unparse(e)) if isinstance(e, ast.Attribute) else NotImplemented,
                                  names={'self': finite.Sym('self'), 'node': finite.Sym('node')})
            try:
                st = mach.run(sl, {})
            except finite.Return:
                raise AnalysisError(f'{fi.fq}: slice of the WHERE computation returns early')
            got = st.get(W)
            want = None if (f is None and w is None) else f if w is None else w if f is None else ('And', FS, WS)
            if got == want:
                continue
            ok = False
            desc = f'FROM expression {"present" if f else "absent"}, WHERE {"present" if w else "absent"}'
            res.fail(construct, f'fromand:{"F" if f else "-"}{"W" if w else "-"}',
                     f'{desc}: the row condition becomes {got!r}, must be {want!r} (the FROM expression is AND-ed with WHERE)',
                     loc(fi, fdef[0]))
    if ok:
        res.ok({'function': fi.fq, 'cases': 4, 'result': 'None | from | where | And[from, where]'})
    return res
