"""C10 rules on the term interpreter: R-FETCHSIB, R-RESET, R-ROWCOUNT, fresh-cursor (part of R-MODCONST)."""
from __future__ import annotations

import ast

from ..symex import Sym, Falsy, T, SList, Engine, Raise, show, simplify
from ..loader import AnalysisError, FuncInfo, ClassInfo, loc
from ..report import RuleResult

CU = 'beanquery.cursor'
CUR = Sym('CURSOR')
B = Sym('BUFFER')           # a non-empty list of rows not yet delivered


def _attr(name):
    return T('attr', (CUR, name))


def _len(x):
    return T('call', ('len', (x,), ()))


def _engine(P, rows_state, log=None):
    def on_attr(base, attr, ex):
        if base == CUR:
            if log is not None:
                log.add(attr)
            if attr == '_rows':
                return rows_state() if callable(rows_state) else rows_state
            if attr in ('_pos', 'arraysize', '_rowcount', '_description', '_context'):
                return Sym(attr.strip('_').upper())
        return NotImplemented

    def oracle(term, ex):
        # the symbolic buffer is non-empty
        if term == B or term == _len(B):
            return True
        if isinstance(term, T) and term.op == 'cmp' and term.args[1] == _len(B) and term.args[2] == 0:
            return {'==': False, '!=': True, '>': True, '<=': False, '<': False, '>=': True}.get(term.args[0])
        return None
    return Engine(P, on_attr=on_attr, oracle=oracle, trace_attrs=('_rows',))


def _run(P, fi, rows_state, **params):
    env = {'self': CUR}
    env.update(params)
    paths = _engine(P, rows_state).paths(fi, env)
    return paths


def _pos_incs(p):
    """How far the position counter moved on this path: the terms added to its initial value."""
    v = p.heap.get(_attr('_pos'), Sym('POS'))
    incs = []
    while isinstance(v, T) and v.op == 'bin' and v.args[0] == '+':
        incs.append(simplify(v.args[2]))
        v = v.args[1]
    if v != Sym('POS'):
        return [('set', v)]
    return [i for i in reversed(incs) if i != 0]


def _norm(t):
    """Normalise len(X[:n]) style terms after simplification."""
    return simplify(t) if isinstance(t, T) else t


def rule_fetchsib(P) -> RuleResult:
    res = RuleResult('R-FETCHSIB')
    res.exhaustive = True
    cur = P.cls(CU, 'Cursor')
    N = Sym('n')
    for name in ('fetchone', 'fetchmany', 'fetchall', '__iter__'):
        fi = cur.methods.get(name)
        if fi is None:
            res.fail(f'{cur.fq}.{name}', 'fetchsib:missing', f'Cursor.{name} is missing', loc(cur))
            continue
        n0 = len(res.findings)

        def fail(detail, msg):
            res.fail(fi.fq, 'fetchsib:' + detail, f'Cursor.{name}: {msg}', loc(fi))
        # (c) not executed yet / exhausted
        for state, desc in ((None, 'before any execute'), (lambda: SList(), 'when the rows are exhausted')):
            for p in _run(P, fi, state, **({'size': None} if name == 'fetchmany' else {})):
                if p.outcome == 'raise':
                    fail('empty', f'{desc} the method raises {p.value[0]}')
                    continue
                v = p.value
                if name == '__iter__':
                    if isinstance(v, T) and v.op == 'call' and v.args[0] == 'iter' and len(v.args[1]) == 2:
                        continue          # iter(self.fetchone, None): judged below
                    ys = [e for e in p.events if e[0] == 'yield']
                    if ys:
                        fail('empty', f'{desc} iteration delivers `{show(ys[0][1])}`')
                    continue
                want_none = name == 'fetchone'
                empty_list = isinstance(v, SList) and not v.items and not v.opaque_tail
                if (want_none and v is not None) or (not want_none and not empty_list):
                    fail('empty', f'{desc} the method must return {"None" if want_none else "an empty list"}; returns `{show(v)}`')
                incs = _pos_incs(p)
                if incs:
                    fail('empty-pos', f'{desc} the position counter moves by {", ".join(map(show, incs))}')
        # (a)/(b) on a non-empty buffer
        cases = [('n given', {'size': N}), ('default size', {'size': None})] if name == 'fetchmany' else [('', {})]
        for cdesc, params in cases:
            for p in _run(P, fi, B, **params):
                if p.outcome == 'raise':
                    fail('raises', f'raises {p.value[0]} on a non-empty buffer')
                    continue
                v = _norm(p.value)
                kept = _norm(p.heap.get(_attr('_rows'), B))
                incs = _pos_incs(p)
                pops = [e for e in p.events if e[0] == 'call' and e[1] == f'{show(B)}.pop']
                eff = N if params.get('size') is N else Sym('ARRAYSIZE')
                if name == 'fetchone':
                    by_pop = len(pops) == 1 and pops[0][2] == (0,) and v == T('call', (f'{show(B)}.pop', (0,), ())) and kept == B
                    by_slice = v == T('item', (B, 0)) and kept == T('slice', (B, 1, None))
                    if not (by_pop or by_slice):
                        fail('consume', f'must hand out the first buffered row and remove it from the buffer; hands out `{show(v)}`, keeps `{show(kept)}`')
                    if incs != [1]:
                        fail('count', f'must advance the position by 1; advances by {[show(i) for i in incs] or "nothing"}')
                elif name == 'fetchmany':
                    if v != T('slice', (B, None, eff)):
                        fail('deliver', f'({cdesc}) must hand out the first n buffered rows; hands out `{show(v)}`')
                    if kept != T('slice', (B, eff, None)):
                        fail('consume', f'({cdesc}) rows[:n] are handed out, so rows[n:] must be kept (same bound); keeps `{show(kept)}`')
                    if incs != [_len(T('slice', (B, None, eff)))]:
                        fail('count', f'({cdesc}) must advance the position by the number of rows handed out; advances by '
                             f'{[show(i) for i in incs] or "nothing"}')
                elif name == 'fetchall':
                    if v != B:
                        fail('deliver', f'must hand out all buffered rows; hands out `{show(v)}`')
                    if not (isinstance(kept, SList) and not kept.items and not kept.opaque_tail):
                        fail('consume', f'the buffer must be empty afterwards; keeps `{show(kept)}`')
                    if incs != [_len(B)]:
                        fail('count', f'must advance the position by the number of rows handed out; advances by {[show(i) for i in incs] or "nothing"}')
                else:
                    delegating = isinstance(v, T) and v.op == 'call' and v.args[0] == 'iter' and len(v.args[1]) == 2 and \
                        isinstance(v.args[1][0], T) and v.args[1][0].op == 'attr' and v.args[1][0].args[0] == CUR and \
                        str(v.args[1][0].args[1]).startswith('fetch') and v.args[1][1] is None
                    ys = [e for e in p.events if e[0] == 'yield']
                    if delegating:
                        pass
                    elif isinstance(v, T) and v.op == 'call' and v.args[0] == 'iter' and B in v.args[1]:
                        fail('consume', 'iterates over the buffer itself: rows delivered by iteration stay in the buffer (they are delivered '
                             'again by the next fetch) and the position does not move')
                    elif not ys:
                        fail('consume', f'iteration returns `{show(v)}`, which does not fetch')
                    else:
                        # a generator: other fetches may run between two rows, so every row must come from the buffer as it is
                        # *then* (the buffer attribute is rebound by fetchmany / fetchall / execute), and count as delivered
                        seen_yield = -1
                        for i, e in enumerate(p.events):
                            if e[0] != 'yield':
                                continue
                            reads = [j for j in range(seen_yield + 1, i) if p.events[j][0] == 'read' and p.events[j][1] == CUR]
                            if not reads:
                                fail('stale', 'the generator keeps a reference to the row buffer across rows: after fetchmany(), fetchall() '
                                     'or execute() on the same cursor (they rebind the buffer) it goes on delivering rows of the old '
                                     'buffer - rows are delivered twice and the position overshoots')
                                break
                            seen_yield = i
                        # a row is counted when it is handed out, not when the consumer comes back for the next one: whoever holds
                        # the row (or abandons the loop there) sees rownumber include it
                        moved = 0
                        k = 0
                        late = False
                        for e in p.events:
                            if (e[0] == 'aug' and e[1] == _attr('_pos')) or (e[0] == 'store' and e[1] == _attr('_pos')):
                                moved += 1
                            elif e[0] == 'yield':
                                k += 1
                                if moved < k:
                                    late = True
                        if late:
                            fail('count-late', 'the position is advanced after the row has been yielded: while the consumer holds row k '
                                 'rownumber is k - 1, and a loop left at that point (break, next() once) never counts the row it received')
                        n_y = len(ys)
                        incs = _pos_incs(p)
                        if any(i != 1 for i in incs) or (len(incs) != n_y and not any(e[0] == 'loop-cut' for e in p.events)) \
                                or (any(e[0] == 'loop-cut' for e in p.events) and len(incs) not in (n_y, n_y + 1)):
                            fail('count', f'iteration must advance the position by 1 per delivered row; {n_y} rows, position moved by '
                                 f'{[show(i) for i in incs] or "nothing"}')
        # a fetch consumes rows: it changes the buffer and the position and nothing else of the cursor (arraysize is the caller's
        # setting: an explicit fetchmany(n) does not change what later size-less calls deliver)
        for state_, params in [(B, {'size': N}), (B, {'size': None}), (None, {'size': N}), (lambda: SList(), {'size': N})] if name == 'fetchmany' \
                else [(B, {}), (None, {}), (lambda: SList(), {})]:
            for p in _run(P, fi, state_, **params):
                other = sorted({k.args[1] for k in p.heap if isinstance(k, T) and k.op == 'attr' and k.args[0] == CUR} - {'_rows', '_pos'})
                if other:
                    fail('state', f'writes cursor attribute(s) {", ".join(other)}: a fetch changes the row buffer and the position only')
                    break
            else:
                continue
            break
        if len(res.findings) == n0:
            res.ok({'method': name, 'cases': ['not executed', 'exhausted', 'non-empty buffer']})
    fm = cur.methods.get('fetchmany')
    if fm is not None and 'self.arraysize' not in ast.unparse(fm.node):
        res.fail(fm.fq, 'fetchsib:arraysize', 'fetchmany() without a size must use cursor.arraysize', loc(fm))
    return res


def _execute_paths(P, cur):
    ex = cur.methods.get('execute')
    if ex is None:
        raise AnalysisError('anchor vanished: Cursor.execute')
    # the description of a result without columns is the empty tuple: a value of undecided truth, not an object that is always true
    DESC, ROWS = T('attr', (Sym('RESULT'), 'description')), Sym('ROWS')

    def on_call(fname, fval, recv, args, kwargs, e, node):
        f = str(fname)
        if f.endswith('execute_query'):
            e.events.append(('x-stage', 'execute_query'))
            return T('tuple', (DESC, ROWS))
        if f.endswith('parser.parse') or f.endswith('compiler.compile'):
            e.events.append(('x-stage', f.split('.')[-1]))
            return T('call', (f, args, kwargs))
        return NotImplemented

    def on_isinstance(v, c, e):
        return True       # a parsed statement: the parse branch is not of interest here
    paths = []
    for empty in (False, True):
        # the statement may produce no rows at all: whatever is decided on the rows is examined for both cases
        def oracle(term, e, _e=empty):
            if term == ROWS or term == _len(ROWS):
                return not _e
            if isinstance(term, T) and term.op == 'cmp' and term.args[1] == _len(ROWS) and term.args[2] == 0:
                return {'==': _e, '!=': not _e, '>': not _e, '<=': _e, '<': False, '>=': True}.get(term.args[0])
            return None
        paths += Engine(P, on_call=on_call, on_isinstance=on_isinstance, oracle=oracle).paths(ex, {'self': CUR})
    return ex, paths, DESC, ROWS


def rule_reset(P) -> RuleResult:
    res = RuleResult('R-RESET')
    cur = P.cls(CU, 'Cursor')
    init = cur.methods.get('__init__')
    if init is None:
        raise AnalysisError('anchor vanished: Cursor.__init__')
    ip = Engine(P).paths(init, {'self': CUR})
    state = {k.args[1] for p in ip for k in p.heap if isinstance(k, T) and k.op == 'attr' and k.args[0] == CUR} - {'_context', 'arraysize'}
    ex, paths, DESC, ROWS = _execute_paths(P, cur)
    # parsing, compiling and executing the statement can each fail: the cursor state is replaced as a whole, after the last of
    # them - a statement that fails leaves the previous result as it was (description, rows, rowcount and rownumber of one result),
    # unless the state was first put back, as a whole, to what __init__ leaves
    init_heap = {k.args[1]: v for p0 in ip for k, v in p0.heap.items() if isinstance(k, T) and k.op == 'attr' and k.args[0] == CUR}
    partial = None
    for p in paths:
        stored = {}
        for e in p.events:
            if e[0] in ('store', 'aug') and isinstance(e[1], T) and e[1].op == 'attr' and e[1].args[0] == CUR and e[1].args[1] in state:
                stored[e[1].args[1]] = e[2] if e[0] == 'store' else Sym('CHANGED')
            elif e[0] == 'x-stage' and stored and not (set(stored) == set(state) and all(stored[a] == init_heap.get(a, Sym('?')) for a in state)):
                partial = (sorted(stored), e[1])
    if partial:
        res.fail(ex.fq, 'reset:partial', f'execute() writes cursor state ({", ".join(partial[0])}) before {partial[1]}() has run: when the statement '
                 f'fails there, the cursor is left with part of the new state and part of the previous result - rows of the previous '
                 f'statement are still delivered while rownumber has restarted', loc(ex))
    else:
        res.ok({'method': 'execute', 'state_replaced': 'after parse, compile and execute_query have all succeeded'})
    for p in paths:
        if p.outcome != 'return':
            continue
        for a in sorted(state):
            if _attr(a) not in p.heap:
                res.fail(ex.fq, f'reset:{a}', f'a new execute() does not reset cursor state `{a}` (set in __init__): results of the '
                         f'previous statement leak into the next', loc(ex))
            else:
                res.ok({'attribute': a, 'reset_to': show(p.heap[_attr(a)])})
        if p.heap.get(_attr('_pos')) != 0:
            res.fail(ex.fq, 'reset:_pos-value', f'rownumber must restart at 0; execute() sets it to `{show(p.heap.get(_attr("_pos")))}`', loc(ex))
        if p.heap.get(_attr('_rows')) != ROWS:
            res.fail(ex.fq, 'reset:_rows-value', 'the buffer must hold the rows of the executed statement', loc(ex))
        if p.heap.get(_attr('_description')) != DESC:
            res.fail(ex.fq, 'reset:_description-value', 'description must describe the executed statement', loc(ex))
        if p.value != CUR:
            res.fail(ex.fq, 'reset:return', 'execute() returns the cursor', loc(ex))
    em = cur.methods.get('executemany')
    if em is None or 'self.execute(' not in ast.unparse(em.node):
        res.fail(f'{cur.fq}.executemany', 'reset:executemany', 'executemany() must run each parameter set through execute()', loc(cur))
    else:
        res.ok({'method': 'executemany', 'via': 'execute'})
    for p in ip:
        if p.heap.get(_attr('_description'), 'x') is not None:
            res.fail(init.fq, 'reset:description', 'description must be None before any execute()', loc(init))
    return res


def rule_rowcount(P) -> RuleResult:
    res = RuleResult('R-ROWCOUNT')
    cur = P.cls(CU, 'Cursor')
    rc = cur.methods.get('rowcount')
    init = cur.methods.get('__init__')
    if rc is None or init is None:
        raise AnalysisError('anchor vanished: Cursor.rowcount / __init__')
    ok = True
    # -1 on a fresh cursor: evaluate the property on the state __init__ leaves
    for ipath in Engine(P).paths(init, {'self': CUR}):
        heap0 = dict(ipath.heap)

        def on_attr(base, attr, ex):
            k = T('attr', (base, attr))
            return heap0.get(k, NotImplemented)
        for p in Engine(P, on_attr=on_attr).paths(rc, {'self': CUR}):
            if p.value != -1:
                ok = False
                res.fail(rc.fq, 'rowcount:initial', f'rowcount must be -1 before any execute(); it evaluates to `{show(p.value)}` on a fresh cursor', loc(rc))
    # after execute: the number of rows produced ...
    ex, paths, DESC, ROWS = _execute_paths(P, cur)
    for xp in paths:
        if xp.outcome != 'return':
            continue
        heap1 = dict(xp.heap)
        reads = set()

        def on_attr1(base, attr, e):
            k = T('attr', (base, attr))
            if base == CUR:
                reads.add(attr)
            return heap1.get(k, NotImplemented)
        for p in Engine(P, on_attr=on_attr1).paths(rc, {'self': CUR}):
            if simplify(p.value) != _len(ROWS):
                ok = False
                res.fail(rc.fq, 'rowcount:after-execute', f'right after execute() rowcount must be the number of result rows; it is `{show(p.value)}`', loc(rc))
        # ... and it stays that number while rows are fetched: no fetch method may change what rowcount reads
        for name in ('fetchone', 'fetchmany', 'fetchall', '__iter__'):
            f = cur.methods.get(name)
            if f is None:
                continue
            for fp in _run(P, f, B, **({'size': Sym('n')} if name == 'fetchmany' else {})):
                changed = [a for a in reads if _attr(a) in fp.heap] + \
                    [a for a in reads if any(e[0] == 'call' and str(e[1]) == f'{show(B)}.pop' for e in fp.events) and a == '_rows']
                if changed:
                    ok = False
                    res.fail(rc.fq, f'rowcount:{changed[0]}', f'rowcount is the number of rows the last execute produced, but it is computed from '
                             f'`self.{changed[0]}`, which {name} modifies: it changes as rows are fetched', loc(rc))
                    break
    if ok:
        res.ok({'property': 'rowcount', 'initial': -1, 'after_execute': 'len(rows)', 'unchanged_by': 'fetchone, fetchmany, fetchall, iteration'})
    rn = cur.methods.get('rownumber')
    if rn is not None:
        for p in Engine(P).paths(rn, {'self': CUR}):
            if p.value != _attr('_pos'):
                res.fail(rn.fq, 'rowcount:rownumber', f'rownumber must be the position counter; it is `{show(p.value)}`', loc(rn))
            else:
                res.ok({'property': 'rownumber', 'reads': '_pos'})
    return res


def rule_freshcursor(P) -> RuleResult:
    res = RuleResult('R-FRESHCURSOR')
    m = P.module('beanquery')
    conn = m.classes.get('Connection')
    if conn is None or 'execute' not in conn.methods or 'cursor' not in conn.methods:
        raise AnalysisError('anchor vanished: Connection.execute / cursor')
    CONN = Sym('CONNECTION')
    Qs, Ps = Sym('query'), Sym('params')
    fi = conn.methods['execute']
    for p in Engine(P).paths(fi, {'self': CONN, fi.params[1]: Qs}):
        stores = [e for e in p.events if e[0] == 'store' and isinstance(e[1], T) and e[1].args[0] == CONN]
        v = p.value
        fresh = T('call', ('Cursor', (CONN,), ()))
        good = isinstance(v, T) and v.op == 'call' and v.args[0] == f'{show(fresh)}.execute' and v.args[1][:1] == (Qs,)
        if stores:
            res.fail(fi.fq, 'freshcursor:kept', f'Connection.execute() keeps state on the connection (`{show(stores[0][1])}`): a cursor kept there '
                     f'is re-executed under the hands of the caller that still holds it', loc(fi))
        elif not good:
            res.fail(fi.fq, 'freshcursor:source', f'Connection.execute() must execute the statement on a new cursor of this connection; it '
                     f'returns `{show(v)}`', loc(fi))
        else:
            res.ok({'Connection.execute': show(v)})
    return res



# ----------------------------------------------------------------------
# R-COLUMN7: a description entry is the 7-sequence of the DB-API fields

FIELDS = ['name', 'type_code', 'display_size', 'internal_size', 'precision', 'scale', 'null_ok']


def rule_column7(P) -> RuleResult:
    from ..symex import Exec
    res = RuleResult('R-COLUMN7')
    res.exhaustive = True
    col = P.cls(CU, 'Column')
    COL = Sym('COLUMN')
    v = col.attrs.get('_vars')
    if v is None:
        raise AnalysisError('anchor vanished: Column._vars')
    eng0 = Engine(P)
    ex = Exec(eng0, [])
    vars_t = ex.ev(v, {'__fi__': next(iter(col.methods.values()))})
    items = ex.iterate(vars_t)
    names = []
    for it in items or []:
        if isinstance(it, T) and it.op == 'call' and str(it.args[0]).split('.')[-1] == 'attrgetter' and len(it.args[1]) == 1 and isinstance(it.args[1][0], str):
            names.append(it.args[1][0])
    if items is None or len(names) != len(items):
        raise AnalysisError(f'Column._vars: not a sequence of attrgetter(<field>): {ast.unparse(v)[:80]}')
    if names != FIELDS:
        res.fail(col.fq, 'column7:fields', f'a description entry is the 7-sequence {FIELDS}; found {names}', loc(col))
    else:
        res.ok({'fields': names})
    VARS = T('tuple', tuple(items))
    # a description entry carries the name and the type it is constructed with, as given: for a pivoted result the names are data
    # (the values of the second pivot column), and names that differ in blanks or case are different columns
    init = col.methods.get('__init__')
    if init is None or len(init.params) < 3:
        raise AnalysisError('anchor vanished: Column.__init__(name, datatype)')
    NAME, DTYPE = Sym('NAME_GIVEN'), Sym('TYPE_GIVEN')
    for p in Engine(P).paths(init, {'self': COL, init.params[1]: NAME, init.params[2]: DTYPE}):
        got_n, got_t = p.heap.get(T('attr', (COL, '_name'))), p.heap.get(T('attr', (COL, '_type')))
        if p.outcome == 'raise' or got_n != NAME or got_t != DTYPE:
            res.fail(init.fq, 'column7:init', f'Column(name, datatype) must keep the name and the type it is given; it keeps '
                     f'`{show(got_n)[:80]}` and `{show(got_t)[:60]}`' + (f' (raises {p.value[0]})' if p.outcome == 'raise' else ''), loc(init))
        else:
            res.ok({'constructor': init.fq, 'keeps': ['name', 'datatype']})

    def on_attr(base, attr, e):
        if base == COL and attr == '_vars':
            return VARS
        return NotImplemented
    ln = col.methods.get('__len__')
    if ln is None:
        res.fail(f'{col.fq}.__len__', 'column7:len', 'description entries have no len()', loc(col))
    else:
        for p in Engine(P, on_attr=on_attr).paths(ln, {'self': COL}):
            if p.value != len(FIELDS):
                res.fail(f'{col.fq}.__len__', 'column7:len', f'len() of a description entry must be {len(FIELDS)}; it is `{show(p.value)}`', loc(ln))
            else:
                res.ok({'len': len(FIELDS)})
    for i, nm in enumerate(names):
        f = col.methods.get(nm)
        if f is None or not any(ast.unparse(d) == 'property' for d in f.node.decorator_list):
            res.fail(f'{col.fq}.{nm}', 'column7:property', f'field {nm} is not a property of Column', loc(col))
            continue
        vals = {repr(p.value): p.value for p in Engine(P).paths(f, {'self': COL}) if p.outcome == 'return' or p.outcome == 'fallthrough'}
        if i >= 2:
            if list(vals.values()) != [None]:
                res.fail(f.fq, 'column7:none', f'{nm} must be None; it is {list(vals)}', loc(f))
            else:
                res.ok({'field': nm, 'value': None})
        elif i == 0:
            if list(vals.values()) != [T('attr', (COL, '_name'))]:
                res.fail(f.fq, 'column7:name', f'field 0 must be the column name; it is {list(vals)}', loc(f))
            else:
                res.ok({'field': nm})
        else:
            res.ok({'field': nm})
    gi = col.methods.get('__getitem__')
    if gi is None:
        res.fail(f'{col.fq}.__getitem__', 'column7:slice', 'description entries must support indexing and slicing', loc(col))
    else:
        problems = []
        KEY = Sym('SLICE_KEY')
        for key, is_slice in ((0, False), (3, False), (6, False), (-1, False), (KEY, True)):
            def on_isinstance(vv, c, e, _s=is_slice):
                if str(c).endswith("('slice',))") or 'slice' in show(c):
                    return _s
                return NotImplemented
            for p in Engine(P, on_attr=on_attr, on_isinstance=on_isinstance).paths(gi, {'self': COL, gi.params[1]: key}):
                if p.decisions:
                    problems.append(f'for {"a slice" if is_slice else f"index {key}"} it branches on `{show(p.decisions[0][0])[:60]}`')
                    continue
                if not is_slice:
                    want = T('call', (show(VARS.args[key]), (COL,), ()))
                    if p.outcome != 'return' or p.value not in (want, T('attr', (COL, FIELDS[key]))):
                        problems.append(f'for index {key} it gives `{show(p.value)[:80]}`, not field {FIELDS[key]}')
                else:
                    sel = T('item', (VARS, KEY))
                    v_ = p.value
                    while isinstance(v_, T) and v_.op == 'call' and v_.args[0] == 'tuple' and len(v_.args[1]) == 1:
                        v_ = v_.args[1][0]
                    good = isinstance(v_, SList) and v_.origin is not None and v_.origin[0] == sel and not v_.origin[2] and \
                        v_.origin[1] == T('call', (show(T('elem', (sel,))), (COL,), ()))
                    if p.outcome != 'return' or not good:
                        problems.append(f'for a slice it gives `{show(p.value)[:100]}`, not the tuple of the fields selected by slicing the '
                                        f'7 getters with that very slice')
        if problems:
            res.fail(gi.fq, 'column7:getitem', 'Column.__getitem__ must return the field for an index and the tuple of fields for a slice: '
                     + '; '.join(problems[:3]), loc(gi))
        else:
            res.ok({'getitem': 'index and slice', 'cases': 5})
    bases = [ast.unparse(b) for b in col.node.bases]
    if 'Sequence' not in bases:
        res.fail(col.fq, 'column7:sequence', 'Column must be a Sequence (iteration, len, indexing)', loc(col))
    # iteration, unpacking, tuple(), `in`, reversed(), index() and count() come from the Sequence mixin, which derives them from
    # __len__ and __getitem__ - the 7 fields decided above.  A definition of one of them in Column replaces that derivation.
    field_terms = [{T('attr', (COL, f)), T('call', (show(VARS.args[i]), (COL,), ()))} for i, f in enumerate(FIELDS)]
    overridden = []
    for nm in ('__iter__', '__contains__', '__reversed__', 'index', 'count'):
        f = col.methods.get(nm)
        if f is None:
            continue
        overridden.append(nm)
        if nm not in ('__iter__', '__reversed__'):
            raise AnalysisError(f'{f.fq}: Column overrides the Sequence mixin method {nm}; its agreement with the 7 fields is not modelled')
        def on_item_col(base, i, e_):
            # self[i] inside the class: what __getitem__ (decided above) gives for an index, IndexError beyond the 7 fields
            if base == COL and type(i) is int:
                if -len(FIELDS) <= i < len(FIELDS):
                    return T('call', (show(VARS.args[i]), (COL,), ()))
                raise Raise('IndexError', ('tuple index out of range',))
            return NotImplemented
        for p in Engine(P, on_attr=on_attr, on_item=on_item_col, max_unroll=10).paths(f, {'self': COL}):
            ys = [e[1] for e in p.events if e[0] == 'yield']
            if p.outcome == 'return' and p.value is not None and not ys:
                seq_ = e_items(p.value)
                ys = seq_ if seq_ is not None else [p.value]
            want = field_terms if nm == '__iter__' else list(reversed(field_terms))
            if p.decisions or len(ys) != len(want) or any(y not in w for y, w in zip(ys, want)):
                res.fail(f.fq, 'column7:iteration', f'Column.{nm} delivers `{", ".join(show(y)[:30] for y in ys[:8])}` ({len(ys)} items): iterating '
                         f'or unpacking a description entry (tuple(col), `for x in col`, `a, b, c, d, e, f, g = col`) must deliver the same 7 '
                         f'DB-API fields in the same order as col[0] ... col[6]', loc(f))
            else:
                res.ok({'method': nm, 'delivers': 'the 7 fields in order'})
    if not overridden:
        res.ok({'iteration': 'Sequence mixin over __len__ and __getitem__', 'overrides': 0})
    return res


def e_items(v):
    """Elements of a concrete sequence value (list display, tuple, iter(...) of one), else None."""
    while isinstance(v, T) and v.op == 'call' and v.args[0] in ('iter', 'tuple', 'list') and len(v.args[1]) == 1:
        v = v.args[1][0]
    if isinstance(v, SList) and not v.opaque_tail and not v.tail:
        return list(v.items)
    if isinstance(v, T) and v.op == 'tuple':
        return list(v.args)
    return None


# ----------------------------------------------------------------------
# R-EXECFLOW (C05, C10): execute() hands the caller's statement and parameters to the compiler as they are

def rule_execflow(P) -> RuleResult:
    """Cursor.execute on terms, for statement text and for a parsed statement: the compiler receives the connection context, the
    statement (parsed from exactly the text given, or the tree given) and the caller's parameter object itself - whether it is a
    mapping or a sequence, empty or not, decides which placeholder errors the compiler reports, so no value but None may be replaced
    on the way - and execute_query receives what the compiler returned."""
    res = RuleResult('R-EXECFLOW')
    res.exhaustive = True
    cur = P.cls(CU, 'Cursor')
    ex = cur.methods.get('execute')
    if ex is None:
        raise AnalysisError('anchor vanished: Cursor.execute')
    # a bare symbol stands for an object (true); the parameters may be any value, empty containers included: a term of undecided truth
    QUERY, PARAMS = Sym('STATEMENT'), T('attr', (Sym('CALLER'), 'parameters'))
    if len(ex.params) < 3:
        raise AnalysisError(f'{ex.fq}: parameters changed: {ex.params}')
    for parsed in (True, False):
        def on_call(fname, fval, recv, args, kwargs, e, node):
            f = str(fname)
            if f.endswith('execute_query'):
                e.events.append(('x-exec', 'execute_query', tuple(args), tuple(kwargs)))
                return T('tuple', (Sym('DESCRIPTION'), Sym('ROWS')))
            if f.endswith('parser.parse') or f.split('.')[-1] == 'parse':
                return T('call', ('parse', tuple(args), tuple(kwargs)))
            if f.endswith('compiler.compile') or f.split('.')[-1] == 'compile':
                e.events.append(('x-compile', 'compile', tuple(args), tuple(kwargs)))
                return T('call', ('compile', tuple(args), tuple(kwargs)))
            return NotImplemented

        def on_isinstance(v, c, e, _p=parsed):
            if v == QUERY:
                return _p
            return NotImplemented
        n = 0
        good = True
        eng = Engine(P, on_call=on_call, on_isinstance=on_isinstance)
        for p in eng.paths(ex, {'self': CUR, ex.params[1]: QUERY, ex.params[2]: PARAMS}):
            if p.outcome != 'return':
                continue
            n += 1
            comp = [e for e in p.events if e[0] == 'x-compile']
            execs = [e for e in p.events if e[0] == 'x-exec']
            label = 'a parsed statement' if parsed else 'statement text'
            if len(comp) != 1 or len(execs) != 1:
                good = False
                res.fail(ex.fq, 'execflow:once', f'{label}: execute() must compile and execute the statement once; it compiles {len(comp)} '
                         f'and executes {len(execs)} times', loc(ex))
                continue
            a = list(comp[0][2]) + [v for _, v in comp[0][3]]
            want_q = QUERY if parsed else T('call', ('parse', (QUERY,), ()))
            none_path = any(isinstance(t, T) and t.op == 'cmp' and t.args[0] == 'is' and t.args[1] == PARAMS and t.args[2] is None and o
                            or isinstance(t, T) and t.op == 'cmp' and t.args[0] == 'is not' and t.args[1] == PARAMS and t.args[2] is None and not o
                            for t, o in p.decisions)
            if len(a) != 3 or a[0] != T('attr', (CUR, '_context')) or a[1] != want_q:
                good = False
                res.fail(ex.fq, 'execflow:statement', f'{label}: the compiler must receive the connection context and the statement '
                         f'{"as given" if parsed else "parsed from the text as given"}; it receives `{", ".join(show(x)[:50] for x in a)}`', loc(ex))
            elif a[2] != PARAMS and not none_path:
                good = False
                tests = [f'{show(t)[:40]} is {o}' for t, o in p.decisions]
                res.fail(ex.fq, 'execflow:parameters', f'{label}: when {" and ".join(tests) or "always"} the compiler receives `{show(a[2])[:60]}` '
                         f'instead of the caller\'s parameters: an empty mapping and an empty sequence are different answers to the placeholder '
                         f'checks (missing names are a ProgrammingError, the wrong kind of container a TypeError)', loc(ex))
            elif tuple(execs[0][2]) != (T('call', ('compile', comp[0][2], comp[0][3])),):
                good = False
                res.fail(ex.fq, 'execflow:compiled', f'{label}: execute_query must receive what the compiler returned; it receives '
                         f'`{show(execs[0][2])[:80]}`', loc(ex))
        if n == 0:
            raise AnalysisError(f'{ex.fq}: no returning path on terms')
        if good:
            res.ok({'statement': 'parsed tree' if parsed else 'text', 'paths': n, 'compiler_receives': '(context, statement, parameters as given)'})
    # executemany: the statement is executed once for every parameter set, in the order given - also for sets that repeat or compare
    # equal ((1,) == (True,) == (Decimal(1),) in Python, three different parameter sets in BQL)
    em = cur.methods.get('executemany')
    if em is None:
        raise AnalysisError('anchor vanished: Cursor.executemany')
    P1, P2 = Sym('PARAMETER_SET_1'), Sym('PARAMETER_SET_2')
    PARSED = Sym('PARSED_STATEMENT')
    runs = []

    def on_call_m(fname, fval, recv, args, kwargs, e, node):
        f = str(fname)
        if f.split('.')[-1] == 'parse':
            return PARSED
        if f.split('.')[-1] == 'execute' and recv == CUR:
            runs.append(tuple(args) + tuple(v for _, v in kwargs))
            return CUR
        return NotImplemented
    n = 0
    for p in Engine(P, on_call=on_call_m, max_depth=0).paths(em, {'self': CUR, em.params[1]: QUERY, em.params[2]: SList([P1, P2, P2])}):
        n += 1
        want = [(PARSED, P1), (PARSED, P2), (PARSED, P2)]
        alt = [(QUERY, P1), (QUERY, P2), (QUERY, P2)]
        if p.decisions or p.outcome == 'raise' or runs not in (want, alt):
            res.fail(em.fq, 'execflow:executemany', f'executemany(statement, [p1, p2, p2]) must execute the statement three times, with p1, p2 and '
                     f'p2 again, in this order; it executes {[tuple(show(x)[:24] for x in r) for r in runs] or "nothing it can be seen to"}'
                     + (f' (depending on {show(p.decisions[0][0])[:50]})' if p.decisions else ''), loc(em))
        else:
            res.ok({'method': 'executemany', 'executes': 'once per parameter set, in order, repeated sets included'})
        # ... and the cursor is left as the last execute() left it: executemany itself writes no cursor state (rowcount is the number
        # of rows of the last statement executed, the rows that can be fetched)
        own = sorted({k.args[1] for k in p.heap if isinstance(k, T) and k.op == 'attr' and k.args[0] == CUR})
        if own:
            res.fail(em.fq, 'execflow:executemany-state', f'executemany() writes cursor state ({", ".join(own)}) besides what each execute() '
                     f'sets: description, rows, rowcount and position must be those of the last statement executed', loc(em))
        runs.clear()
    if n == 0:
        raise AnalysisError(f'{em.fq}: no path on terms')
    return res


# ----------------------------------------------------------------------
# R-CONNECTION (C10, C20): what a connection is made of and what its methods hand on

def rule_connection(P) -> RuleResult:
    """Connection on terms.  __init__ gives every connection its own table registry (holding the null table under ''), option
    dictionary and error list - new objects, not shared defaults - and attaches the dsn when one is given, with the keyword
    arguments of the call; attach() picks the source module named by the scheme of that very dsn and hands it (connection, dsn,
    **kwargs); parse / compile hand the statement to the parser resp. to the compiler together with this connection; close() changes
    nothing (the DB-API requires the method, the tables stay usable for cursors that are still open)."""
    res = RuleResult('R-CONNECTION')
    res.exhaustive = True
    m = P.module('beanquery')
    conn = m.classes.get('Connection')
    if conn is None:
        raise AnalysisError('anchor vanished: beanquery.Connection')
    need = {k: conn.methods.get(k) for k in ('__init__', 'attach', 'parse', 'compile', 'close')}
    if any(v is None for v in need.values()):
        raise AnalysisError(f'anchor vanished: Connection.{[k for k, v in need.items() if v is None][0]}')
    CONN, DSN, KW, Q = Sym('CONNECTION'), Sym('DSN'), Sym('KEYWORDS'), Sym('STATEMENT')
    init = need['__init__']
    kwname = init.node.args.kwarg.arg if init.node.args.kwarg else None
    for with_dsn in (True, False):
        def on_call(fn, fv, rc, a, k, ex, nd):
            f = str(fn)
            if f.split('.')[-1] == 'attach' and rc == CONN:
                ex.events.append(('x-attach', tuple(a), tuple(k)))
                return None
            if f.split('.')[-1] == 'NullTable':
                return T('new', ('NullTable', tuple(a)))
            return NotImplemented
        env = {'self': CONN, init.params[1]: DSN if with_dsn else None}
        for extra in init.params[2:]:
            env[extra] = Sym(f'DEFAULT_OBJECT_OF_PARAMETER_{extra}')      # one object for all calls: not something a connection owns
        if kwname:
            env[kwname] = KW
        good = True
        n = 0
        for p in Engine(P, on_call=on_call, max_depth=2).paths(init, env):
            n += 1
            label = 'with a dsn' if with_dsn else 'without a dsn'
            tb, op, er = (p.heap.get(_cattr(CONN, a)) for a in ('tables', 'options', 'errors'))
            fresh = isinstance(tb, SList) and tb.kind == 'dict' and isinstance(op, SList) and op.kind == 'dict' and not op.items and \
                isinstance(er, SList) and er.kind == 'list' and not er.items
            if not fresh or p.decisions and any(not (isinstance(t, T) and t.op == 'cmp') for t, _ in p.decisions):
                good = False
                res.fail(init.fq, 'connection:state', f'{label}: a connection starts with a table registry, an option dictionary and an error '
                         f'list of its own (new objects made in __init__); found tables=`{show(tb)[:50]}`, options=`{show(op)[:30]}`, '
                         f'errors=`{show(er)[:30]}`', loc(init))
                continue
            if [k_ for k_, _ in tb.items] != [''] or tb.items[0][1] != T('new', ('NullTable', ())):
                good = False
                res.fail(init.fq, 'connection:nulltable', f"{label}: the registry starts with exactly the null table under the name ''; found "
                         f'`{show(tb)[:80]}`', loc(init))
                continue
            at = [e for e in p.events if e[0] == 'x-attach']
            if with_dsn and (len(at) != 1 or at[0][1] != (DSN,) or (kwname and (None, KW) not in at[0][2] and ('**', KW) not in at[0][2] and KW not in [v for _, v in at[0][2]])):
                good = False
                res.fail(init.fq, 'connection:attach', f'{label}: __init__ must attach that dsn once, with the keyword arguments it was given; '
                         f'it calls attach {[(tuple(map(show, a_)), tuple((k_, show(v_)) for k_, v_ in k2)) for _, a_, k2 in at]}', loc(init))
            elif not with_dsn and at:
                good = False
                res.fail(init.fq, 'connection:attach', f'{label}: nothing is attached', loc(init))
        if n == 0:
            raise AnalysisError(f'{init.fq}: no path on terms')
        if good:
            res.ok({'method': '__init__', 'dsn': with_dsn, 'state': 'own tables {"": NullTable()}, options {}, errors []',
                    'attach': 'once, (dsn, **kwargs)' if with_dsn else 'not called'})
    # attach
    at = need['attach']
    akw = at.node.args.kwarg.arg if at.node.args.kwarg else None
    MOD = Sym('SOURCE_MODULE')
    def on_call_a(fn, fv, rc, a, k, ex, nd):
        f = str(fn)
        if f.endswith('import_module'):
            ex.events.append(('x-import', tuple(a)))
            return MOD
        if rc == MOD and f.split('.')[-1] == 'attach':
            ex.events.append(('x-attach', tuple(a), tuple(k)))
            return None
        return NotImplemented
    env = {'self': CONN, at.params[1]: DSN}
    if akw:
        env[akw] = KW
    scheme = T('attr', (T('call', ('urlparse', (DSN,), ())), 'scheme'))
    want_mods = (T('fstr', ('beanquery.sources.', scheme)), T('bin', ('+', 'beanquery.sources.', scheme)))
    n = 0
    good = True
    for p in Engine(P, on_call=on_call_a, max_depth=2).paths(at, env):
        if p.outcome == 'raise':
            continue
        n += 1
        imp = [e[1] for e in p.events if e[0] == 'x-import']
        att = [e for e in p.events if e[0] == 'x-attach']
        cond = f' when {" and ".join(show(t)[:40] + " is " + str(o) for t, o in p.decisions)}' if p.decisions else ''
        if len(imp) != 1 or len(imp[0]) != 1 or imp[0][0] not in want_mods:
            good = False
            res.fail(at.fq, 'connection:source', f'attach(dsn) must load the source module `beanquery.sources.<scheme of that dsn>`; it imports '
                     f'`{", ".join(show(x)[:80] for a_ in imp for x in a_) or "nothing"}`{cond}', loc(at))
            break
        if len(att) != 1 or att[0][1] != (CONN, DSN) or (akw and KW not in [v for _, v in att[0][2]]):
            good = False
            res.fail(at.fq, 'connection:source', f"attach(dsn, **kwargs) must call the source module's attach(connection, dsn, **kwargs); it calls "
                     f'`{[(tuple(map(show, e[1])), tuple((k_, show(v_)) for k_, v_ in e[2])) for e in att]}`{cond}'[:500], loc(at))
            break
    if n == 0:
        raise AnalysisError(f'{at.fq}: no path on terms')
    if good:
        res.ok({'method': 'attach', 'source': 'beanquery.sources.<scheme of the dsn>', 'hands_on': '(connection, dsn, **kwargs)'})
    # parse / compile
    for meth, callee, want in (('parse', 'parser.parse', (Q,)), ('compile', 'compiler.compile', (CONN, Q))):
        f = need[meth]
        got = []

        def on_call_p(fn, fv, rc, a, k, ex, nd, _c=callee):
            if str(fn).endswith(_c) or str(fn).split('.')[-1] == _c.split('.')[-1]:
                got.append((tuple(a), tuple(k)))
                return T('call', (_c, tuple(a), tuple(k)))
            return NotImplemented
        bad = False
        for p in Engine(P, on_call=on_call_p, max_depth=0).paths(f, {'self': CONN, f.params[1]: Q}):
            if p.outcome != 'return' or p.decisions or len(got) != 1 or got[0] != (want, ()) or p.value != T('call', (callee, want, ())):
                bad = True
        if bad or not got:
            res.fail(f.fq, f'connection:{meth}', f'Connection.{meth}(statement) is {callee}({", ".join(map(show, want))}); found '
                     f'{[tuple(map(show, a)) for a, _ in got]}', loc(f))
        else:
            res.ok({'method': meth, 'is': f'{callee}({", ".join(map(show, want))})'})
    # close
    cl = need['close']
    changed = False
    for p in Engine(P, max_depth=0).paths(cl, {'self': CONN}):
        if p.heap or [e for e in p.events if e[0] in ('call', 'store', 'mutate', 'delete')] or p.outcome == 'raise':
            changed = True
            what = [str(e[1])[:40] for e in p.events if e[0] in ('call', 'store', 'mutate', 'delete')] + [show(k) for k in p.heap]
            res.fail(cl.fq, 'connection:close', f'close() must leave the connection as it is (cursors that are still open keep reading its '
                     f'tables); it does {what[:3]}', loc(cl))
            break
    if not changed:
        res.ok({'method': 'close', 'effect': 'none'})
    return res


def _cattr(base, name):
    return T('attr', (base, name))


# ----------------------------------------------------------------------
# R-COLUMNEQ (C10): two description entries are equal exactly when name and type agree

def rule_columneq(P) -> RuleResult:
    from ..symex import gname as gname_
    """Column.__eq__ on terms.  Against another Column the answer is a comparison of this entry's name and type with the *other*
    entry's name and type (directly, or through the 7-field tuples, which hold both); against a tuple it is (name, datatype) == tuple;
    anything else is left to the other operand (NotImplemented)."""
    res = RuleResult('R-COLUMNEQ')
    res.exhaustive = True
    col = P.cls(CU, 'Column')
    eq = col.methods.get('__eq__')
    if eq is None:
        raise AnalysisError('anchor vanished: Column.__eq__')
    A_, B_ = Sym('THIS_COLUMN'), Sym('OTHER')
    NAME = {'_name': 'name', 'name': 'name', '_type': 'type', 'datatype': 'type', 'type_code': 'type'}

    def fields(t, who):
        """-> set of 'name' / 'type' the term reads from `who` (the 7-tuple reads both), or None when it reads something else."""
        out = set()
        ok = True

        def walk(x):
            nonlocal ok
            if isinstance(x, T) and x.op == 'attr' and x.args[0] == who and x.args[1] in NAME:
                out.add(NAME[x.args[1]])
            elif isinstance(x, T) and x.op == 'call' and x.args[0] in ('tuple', 'list') and tuple(x.args[1]) == (who,):
                out.update(('name', 'type'))
            elif isinstance(x, T) and x.op == 'call' and x.args[0] == 'hash' and len(x.args[1]) == 1:
                walk(x.args[1][0])
            elif isinstance(x, T) and x.op == 'tuple':
                for y in x.args:
                    walk(y)
            elif isinstance(x, SList) and not x.opaque_tail:
                for y in x.items:
                    walk(y)
            else:
                ok = False
        walk(t)
        return out if ok else None
    for kind in ('column', 'tuple', 'other'):
        def on_isinstance(v, c, e, _k=kind):
            if v == B_:
                names = [gname_(x) for x in (c.args if isinstance(c, T) and c.op == 'tuple' else [c])]
                is_col = any('type(' in n or n.split('.')[-1] == 'Column' for n in names)
                is_tup = any(n.split('.')[-1] == 'tuple' for n in names)
                return (_k == 'column' and is_col) or (_k == 'tuple' and is_tup)
            return NotImplemented
        n = 0
        for p in Engine(P, on_isinstance=on_isinstance).paths(eq, {'self': A_, eq.params[1]: B_}):
            n += 1
            if p.outcome != 'return':
                res.fail(eq.fq, 'columneq:raise', f'comparing a description entry with {kind} raises {p.value[0]}', loc(eq))
                continue
            v = p.value
            if kind == 'other':
                if gname_(v).split('.')[-1] == 'NotImplemented':
                    res.ok({'compared_with': 'anything else', 'answer': 'NotImplemented'})
                else:
                    res.fail(eq.fq, 'columneq:other', f'compared with an object that is neither a Column nor a tuple the answer is '
                             f'NotImplemented (the other operand decides); found `{show(v)[:60]}`', loc(eq))
                continue
            # all equalities that had to hold on this path, plus the one returned
            cmps = [t for t, o in p.decisions if o and isinstance(t, T) and t.op == 'cmp' and t.args[0] == '=='] + \
                ([v] if isinstance(v, T) and v.op == 'cmp' and v.args[0] == '==' else [])
            false_branch = any(not o for t, o in p.decisions if isinstance(t, T) and t.op == 'cmp' and t.args[0] == '==')
            if false_branch and v is False:
                continue        # one of the equalities failed: unequal
            covered = set()
            bad = None
            for c in cmps:
                l, r = c.args[1], c.args[2]
                if kind == 'column':
                    fl, fr = fields(l, A_), fields(r, B_)
                    if fl is None or fr is None:
                        fl, fr = fields(r, A_), fields(l, B_)
                    if fl is None or fr is None or fl != fr:
                        bad = c
                        break
                    covered |= fl
                else:
                    fl = fields(l, A_) if r == B_ else fields(r, A_) if l == B_ else None
                    if fl is None:
                        bad = c
                        break
                    covered |= fl
            if bad is not None or covered != {'name', 'type'} or (v is not True and not (isinstance(v, T) and v.op == 'cmp')):
                res.fail(eq.fq, f'columneq:{kind}', f'compared with {"another description entry" if kind == "column" else "a (name, datatype) tuple"} '
                         f'the answer is whether name and type of this entry equal those of the other; the comparison made is '
                         f'`{" and ".join(show(c)[:70] for c in cmps) or show(v)[:60]}`, which covers {sorted(covered) or "nothing"}'
                         + (f' and compares `{show(bad)[:70]}`' if bad is not None else ''), loc(eq))
            else:
                res.ok({'compared_with': kind, 'compares': 'name and type of both'})
        if n == 0:
            raise AnalysisError(f'{eq.fq}: no path on terms')
    return res
