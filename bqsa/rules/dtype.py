"""R-DTYPE, R-TYPESAFE, R-RENDERABLE: announced result types vs. abstractly inferred ones."""
from __future__ import annotations

import ast
import datetime
from decimal import Decimal

from beancount.core import data, inventory, position, amount

from .. import registry
from ..registry import ANY, ASTERISK, OperandDtype, tname
from ..absint import (Interp, Frame, A, TOP, NoneT, Val, Struct, Coll, Tup, NodeRef, Obj, atoms_of, join, join_all,
                      conforms, TYPE_ERRORS, is_atoms)
from ..loader import AnalysisError, FuncInfo, ClassInfo, loc
from ..report import RuleResult


def row_struct(kind):
    """The row context of the entries / postings tables, typed from beancount's records."""
    if kind == 'postings':
        entry = A(data.Transaction)
        posting = A(data.Posting)
    else:
        entry = frozenset(data.ALL_DIRECTIVES)
        posting = A(NoneT)
    return Struct('Row', {'entry': entry, 'posting': posting, 'balance': A(inventory.Inventory),
                          'rowid': A(int), 'balance_rowid': A(int, NoneT)})


def connection_struct():
    accounts = Struct('AccountsTable', {
        'accounts': Coll(dict, Tup((A(data.Open, NoneT), A(data.Close, NoneT))), A(str)),
        'types': TOP})
    commodities = Struct('CommoditiesTable', {'commodities': Coll(dict, A(data.Commodity), A(str))})
    prices_ = Struct('PricesTable', {'price_map': TOP})
    tables = Struct('tables', {'accounts': accounts, 'commodities': commodities, 'prices': prices_}, default=TOP)
    return Struct('Connection', {'tables': tables, 'options': TOP, 'errors': TOP})


def fmt(v):
    a = atoms_of(v)
    if a is TOP:
        return 'TOP'
    return '{' + ', '.join(sorted(t.__name__ for t in a)) + '}'


def bind_params(it, fi: FuncInfo, lead, values):
    """Environment for calling fi with `lead` leading context values and operand `values`; defaults for the rest."""
    env = it.new_env(fi)
    params = fi.params
    a = fi.node.args
    defaults = a.defaults
    fd = len(params) - len(defaults)
    vals = list(lead) + list(values)
    for i, p in enumerate(params):
        if i < len(vals):
            env[p] = vals[i]
        elif i >= fd:
            env[p] = it.ev(defaults[i - fd], it.new_env(fi), Frame())
        else:
            env[p] = TOP
    return env


def run_overload(it, fi, lead, values):
    env = bind_params(it, fi, lead, values)
    frame = it.run_function(fi, env)
    res = join_all([v for v, _ in frame.returns]) if frame.returns else A(NoneT)
    # falling off the end returns None too
    return res, frame




def type_errors(frame):
    return sorted({(r.exc, r.what, r.atoms) for r in frame.raises
                   if (r.exc in TYPE_ERRORS or (r.exc == 'NotImplementedError' and r.what == 'bool()')) and r.definite})




def rule_dtype(P) -> RuleResult:
    """Every value an overload/accessor can return is NULL or an instance of the declared dtype."""
    reg = registry.get(P)
    it = Interp(P, reg)
    res = RuleResult('R-DTYPE')
    res.exhaustive = True

    U = sorted(reg.universe() - {NoneT}, key=lambda t: t.__name__)

    def expand(intypes):
        import itertools
        pools = [U if t is ANY else [NoneT] if t is ASTERISK else [t] for t in intypes]
        return list(itertools.product(*pools))

    def val(t):
        return TOP if t is object else A(t)

    # operators ---------------------------------------------------------
    for o in reg.ops:
        construct = f'operator:{o.label}'
        if o.kind == 'Between':
            # EvalBetween.__call__ returns a chained comparison: bool
            if o.outtype is not bool:
                res.fail(construct, 'declared', f'BETWEEN declared {tname(o.outtype)}, yields bool')
            else:
                res.ok({'overload': o.label, 'declared': 'bool', 'inferred': ['bool']})
            continue
        rs = []
        for combo in expand(o.intypes):
            vals = [val(t) for t in combo]
            if isinstance(o.impl, FuncInfo):
                r, frame = run_overload(it, o.impl, [], vals)
                where = loc(o.impl)
            elif isinstance(o.impl, str):
                f = P.pyobj(o.impl)
                frame = Frame()
                r = it.call_value(Obj(f), vals, {}, frame, None)
                where = f'{o.cls.info.module.path}:{getattr(o.site, "lineno", 0)}'
            else:
                raise AnalysisError(f'operator overload {o.label} has no implementation')
            rs.append(r)
        _judge(res, construct, o.label, o.outtype, join_all(rs), where)

    # scalar functions --------------------------------------------------
    for f in reg.funcs:
        construct = f'function:{f.label}'
        if f.kind == 'function':
            if _is_stub(f.impl):
                res.ok({'overload': f.label, 'stub': True})
                continue
            lead = []
            if f.pass_row:
                lead = [row_struct('postings')]
            elif f.pass_context:
                lead = [connection_struct()]
            rs = [run_overload(it, f.impl, lead, [val(t) for t in combo])[0] for combo in expand(f.intypes)]
            _judge(res, construct, f.label, f.outtype, join_all(rs), loc(f.impl))
        elif f.kind == 'class':
            # GetItem2/3: declared object admits anything
            if f.outtype is object:
                res.ok({'overload': f.label, 'declared': 'object'})
            else:
                r = _class_call_result(it, P, reg, f)
                _judge(res, construct, f.label, f.outtype, r, loc(f.cls.info))
        else:
            _aggregate_dtype(it, P, reg, f, res)

    # one implementation registered under several names (currency_meta / commodity_meta): the names are spellings of one
    # function, so for the same operand types they announce the same type - the value returned cannot depend on the spelling
    by_impl = {}
    for f in reg.funcs:
        if f.kind == 'function' and f.impl is not None:
            by_impl.setdefault(f.impl.fq, []).append(f)
    for fq_, fs in by_impl.items():
        if len({f.name for f in fs}) < 2:
            continue
        sigs = {}
        for f in fs:
            sigs.setdefault(tuple(f.intypes), []).append(f)
        for intypes, group in sigs.items():
            outs = {tname(f.outtype) for f in group}
            label = f'{"/".join(sorted({f.name for f in group}))}({", ".join(tname(t) for t in intypes)})'
            if len(outs) > 1:
                res.fail(f'function:{group[0].label}', 'result-type',
                         f'{label}: one implementation ({fq_.split(":")[-1]}) registered under several names announces different types for '
                         f'the same operands: ' + ', '.join(f'{f.name} -> {tname(f.outtype)}' for f in group), loc(group[0].impl))
            elif len(group) > 1:
                res.ok({'overload': label, 'spellings_agree_on': sorted(outs)[0]})

    # column accessors of the entries / postings tables ----------------
    for fq, cols in reg.tables.items():
        tinfo = reg.table_info[fq]
        for name, c in cols.items():
            construct = f'column:{tinfo.name}.{name}'
            if c.kind == 'func':
                kind = 'postings' if tinfo.name == 'PostingsTable' and _defined_after_postings(P, c) else 'entries'
                # an accessor inherited from the entries table is evaluated on posting rows too
                kinds = [kind] if kind == 'postings' else (
                    ['entries', 'postings'] if _inherited_by_postings(reg, c) else ['entries'])
                for k in kinds:
                    r, frame = run_overload(it, c.impl, [row_struct(k)], [])
                    _judge(res, construct, f'{tinfo.name}.{name}[{k} row]', c.dtype, r, loc(c.impl))
            elif c.kind == 'getattr':
                rec = reg.record_of.get(fq)
                if rec is None:
                    res.unresolved += 1
                    continue
                r = it.getattr_value(A(rec), c.impl, Frame())
                _judge(res, construct, f'{tinfo.name}.{name}', c.dtype, r, loc(tinfo))
            elif c.kind == 'getitem':
                r = _accounts_row_item(it, P, reg, tinfo, c)
                _judge(res, construct, f'{tinfo.name}.{name}', c.dtype, r, loc(tinfo))
    for fq, cols in reg.structures.items():
        sinfo = reg.table_info[fq]
        rec = reg.record_of.get(fq)
        for name, c in cols.items():
            if rec is None or c.kind != 'getattr':
                res.unresolved += 1
                continue
            r = it.getattr_value(A(rec), c.impl, Frame())
            _judge(res, f'attribute:{sinfo.name}.{name}', f'{sinfo.name}.{name}', c.dtype, r, loc(sinfo))
    return res


def _is_stub(fi: FuncInfo):
    from ..loader import body_without_docstring
    body = body_without_docstring(fi.node)
    return len(body) == 1 and isinstance(body[0], ast.Raise)


def _defined_after_postings(P, c):
    m = c.impl.module
    pt = m.classes.get('PostingsTable')
    return pt is not None and c.impl.node.lineno > pt.node.lineno


def _inherited_by_postings(reg, c):
    cols = reg.tables.get('beanquery.query_env:PostingsTable', {})
    return any(x.impl is c.impl for x in cols.values() if x.kind == 'func')


def _judge(res, construct, label, declared, inferred, where):
    a = atoms_of(inferred)
    if a is TOP:
        res.unresolved += 1
        res.ok({'overload': label, 'declared': tname(declared), 'inferred': 'TOP (unresolved)'})
        return
    if isinstance(declared, OperandDtype):
        res.ok({'overload': label, 'declared': repr(declared), 'inferred': fmt(a)})
        return
    bad = sorted(t.__name__ for t in a if not conforms(t, declared))
    if bad:
        res.fail(construct, 'result-type',
                 f'{label} announces {tname(declared)} but can return {", ".join(bad)} (inferred {fmt(a)})', where)
    else:
        res.ok({'overload': label, 'declared': tname(declared), 'inferred': fmt(a)})


def _class_call_result(it, P, reg, f):
    call = P.find_method(f.cls.info, '__call__')
    if not isinstance(call, FuncInfo):
        return TOP
    return TOP


def _accounts_row_item(it, P, reg, tinfo, c):
    """Type of element `c.impl` of the row tuples produced by the table's __iter__."""
    itf = tinfo.methods.get('__iter__')
    if itf is None:
        return TOP
    # rows are (name, value[0], value[1]) for name, value in self.accounts.items(), accounts from
    # get_account_open_close: dict account -> (Open|None, Close|None)
    ret = None
    for n in ast.walk(itf.node):
        if isinstance(n, ast.Return):
            ret = n.value
    if not isinstance(ret, (ast.GeneratorExp, ast.ListComp)) or not isinstance(ret.elt, ast.Tuple):
        return TOP
    self_ = Struct('self', {'accounts': Coll(dict, Tup((A(data.Open, NoneT), A(data.Close, NoneT))), A(str))})
    env = it.new_env(itf)
    env['self'] = self_
    v = it.ev(ret, env, Frame())
    if isinstance(v, Coll) and isinstance(v.elem, Tup) and isinstance(c.impl, int) and c.impl < len(v.elem.items):
        x = v.elem.items[c.impl]
        # structured aliases: Open/Close records are announced through their Structure classes
        a = atoms_of(x)
        if a is TOP:
            return TOP
        out = set()
        for t in a:
            s = next((reg.synth(reg.table_info[sfq]) for sfq, cols in reg.structures.items()
                      if reg.record_of.get(sfq) is t), None)
            out.add(s if s is not None else t)
        return frozenset(out)
    return TOP


# ----------------------------------------------------------------------
# aggregates

class AggInterp(Interp):
    """`store[self.handle]` is treated as the accumulator pseudo-variable `$acc`."""

    @staticmethod
    def _is_acc(e):
        return (isinstance(e, ast.Subscript) and isinstance(e.value, ast.Name) and e.value.id == 'store'
                and isinstance(e.slice, ast.Attribute) and e.slice.attr == 'handle')

    def e_Subscript(self, e, env, frame):
        if self._is_acc(e):
            return env.get('$acc', TOP)
        return super().e_Subscript(e, env, frame)

    def s_Assign(self, st, env, frame):
        if len(st.targets) == 1 and self._is_acc(st.targets[0]):
            v = self.ev(st.value, env, frame)
            env = dict(env)
            env['$acc'] = v
            return env
        return super().s_Assign(st, env, frame)

    def s_AugAssign(self, st, env, frame):
        if self._is_acc(st.target):
            from ..absint import _BINOPS
            cur = env.get('$acc', TOP)
            r = self.ev(st.value, env, frame)
            f = _BINOPS.get(type(st.op))
            v = self.sample(type(st.op).__name__, f, [cur, r], frame, st) if f else TOP
            env = dict(env)
            env['$acc'] = v
            return env
        return super().s_AugAssign(st, env, frame)


def admitted_operand_dtypes(reg, intype):
    """Operand dtypes a signature element admits through the MRO rule of types._bases."""
    U = reg.universe()
    if intype is ANY:
        return sorted(U - {NoneT}, key=lambda t: t.__name__)
    if intype is ASTERISK:
        return [ASTERISK]
    out = []
    for t in U:
        if t is NoneT:
            continue
        bases = t.__mro__
        if len(bases) > 1 and bases[-1] is object:
            bases = bases[:-1]
        if intype in bases:
            out.append(t)
    return sorted(out, key=lambda t: t.__name__)


def agg_value_type(P, reg, f, operand_dtype, frame_out=None):
    """Abstract type of the finalised value of aggregate `f` fed operands of `operand_dtype`."""
    it = AggInterp(P, reg)
    ci = f.cls.info
    announced = operand_dtype if isinstance(f.outtype, OperandDtype) else f.outtype
    if announced is ASTERISK:
        announced = object
    opval = A(NoneT) if operand_dtype is ASTERISK else A(operand_dtype, NoneT)
    self_ = Struct('self', {
        'operands': Coll(list, NodeRef('operand', opval)),
        'dtype': Obj(announced),
        'handle': A(int),
        'value': TOP,
        'context': TOP,
    })
    init = P.find_method(ci, 'initialize')
    upd = P.find_method(ci, 'update')
    if not isinstance(init, FuncInfo) or not isinstance(upd, FuncInfo):
        return TOP, Frame()
    env = it.new_env(init)
    env.update({'self': self_, 'store': TOP})
    fr = Frame()
    e2 = it.exec_block(init.node.body, env, fr)
    acc = (e2 or {}).get('$acc', TOP)
    frame = Frame()
    for _ in range(4):
        env = it.new_env(upd)
        env.update({'self': self_, 'store': TOP, 'context': TOP, '$acc': acc})
        e3 = it.exec_block(upd.node.body, env, frame)
        new = join(acc, (e3 or {}).get('$acc', acc)) if e3 is not None else acc
        if repr(new) == repr(acc):
            break
        acc = new
    frame.raises |= fr.raises
    return acc, frame


def _aggregate_dtype(it, P, reg, f, res):
    construct = f'aggregate:{f.label}'
    for t in admitted_operand_dtypes(reg, f.intypes[0]):
        announced = t if isinstance(f.outtype, OperandDtype) else f.outtype
        acc, frame = agg_value_type(P, reg, f, t)
        label = f'{f.label} over {tname(t)}'
        a = atoms_of(acc)
        if a is TOP:
            res.unresolved += 1
            res.ok({'overload': label, 'declared': tname(announced), 'inferred': 'TOP (unresolved)'})
            continue
        if announced is ASTERISK:
            announced = object
        bad = sorted(x.__name__ for x in a if not conforms(x, announced))
        if bad:
            res.fail(construct, f'result-type:{tname(t)}',
                     f'{label} announces {tname(announced)} but accumulates {", ".join(bad)} (inferred {fmt(a)})',
                     loc(f.cls.info))
        else:
            res.ok({'overload': label, 'declared': tname(announced), 'inferred': fmt(a)})


# ----------------------------------------------------------------------
# R-TYPESAFE

def rule_typesafe(P) -> RuleResult:
    """No accepted operand-type combination leads to a definite TypeError in the implementation."""
    reg = registry.get(P)
    it = Interp(P, reg)
    res = RuleResult('R-TYPESAFE')
    res.exhaustive = True
    U = sorted(reg.universe() - {NoneT}, key=lambda t: t.__name__)

    def expand(intypes):
        """All operand atom tuples admitted: Any ranges over the dtype universe."""
        import itertools
        pools = []
        for t in intypes:
            if t is ANY:
                pools.append(U)
            elif t is ASTERISK:
                pools.append([NoneT])
            else:
                pools.append([t])
        return itertools.product(*pools)

    for o in reg.ops:
        construct = f'operator:{o.label}'
        if o.kind == 'Between':
            fr = Frame()
            x, lo, hi = (A(t) for t in o.intypes)
            it.sample('LtE', lambda a, b: a <= b, [lo, x], fr)
            it.sample('LtE', lambda a, b: a <= b, [x, hi], fr)
            _judge_safe(res, construct, o.label, tuple(o.intypes), fr, '')
            continue
        for combo in expand(o.intypes):
            vals = [A(t) for t in combo]
            if isinstance(o.impl, FuncInfo):
                _, frame = run_overload(it, o.impl, [], vals)
                where = loc(o.impl)
            else:
                frame = Frame()
                it.call_value(Obj(P.pyobj(o.impl)), vals, {}, frame, None)
                where = ''
            _judge_safe(res, construct, o.label, combo, frame, where, any_expanded=ANY in o.intypes)
    for f in reg.funcs:
        construct = f'function:{f.label}'
        if f.kind == 'function':
            if _is_stub(f.impl):
                continue
            lead = [row_struct('postings')] if f.pass_row else [connection_struct()] if f.pass_context else []
            for combo in expand(f.intypes):
                vals = [TOP if t is object else A(t) for t in combo]
                _, frame = run_overload(it, f.impl, lead, vals)
                _judge_safe(res, construct, f.label, combo, frame, loc(f.impl), any_expanded=ANY in f.intypes)
        elif f.kind == 'aggregator':
            for t in admitted_operand_dtypes(reg, f.intypes[0]):
                if t is object:
                    continue
                _, frame = agg_value_type(P, reg, f, t)
                _judge_safe(res, f'aggregate:{f.label}', f.label, (t,), frame, loc(f.cls.info),
                            any_expanded=f.intypes[0] is ANY)
    # column accessors
    for fq, cols in reg.tables.items():
        tinfo = reg.table_info[fq]
        for name, c in cols.items():
            if c.kind != 'func':
                continue
            kinds = ['postings'] if (tinfo.name == 'PostingsTable' and _defined_after_postings(P, c)) else \
                (['entries', 'postings'] if _inherited_by_postings(reg, c) else ['entries'])
            for k in kinds:
                _, frame = run_overload(it, c.impl, [row_struct(k)], [])
                _judge_safe(res, f'column:{tinfo.name}.{name}', f'{tinfo.name}.{name}', (k + ' row',), frame,
                            loc(c.impl))
    return res


def _judge_safe(res, construct, label, combo, frame, where, any_expanded=False):
    errs = type_errors(frame)
    cn = tuple(t if isinstance(t, str) else t.__name__ for t in combo)
    if errs:
        exc, what, atoms = errs[0]
        res.fail(construct, 'typeerror:' + ','.join(cn),
                 f'{label} accepts operands ({", ".join(cn)}) but its implementation raises {exc} '
                 f'in `{what}` on ({", ".join(atoms)})', where)
    else:
        res.ok({'overload': label, 'operands': list(cn)})


# ----------------------------------------------------------------------
# R-RENDERABLE

def rule_renderable(P) -> RuleResult:
    """Every announceable dtype finds a renderer by walking its MRO; converting types are dtypes."""
    reg = registry.get(P)
    res = RuleResult('R-RENDERABLE')
    res.exhaustive = True
    if not reg.renderers:
        raise AnalysisError('anchor vanished: no ColumnRenderer classes with a dtype found')
    for t in sorted(reg.universe(), key=lambda t: t.__name__):
        hit = next((b for b in t.__mro__ if b in reg.renderers), None)
        if hit is None:
            res.fail(f'dtype:{t.__name__}', 'no-renderer', f'no renderer is registered for {t.__name__} or any base')
        else:
            res.ok({'dtype': t.__name__, 'renderer': reg.renderers[hit].name})
    for t in reg.converting_types:
        res.ok({'converting_type': t.__name__})
    return res


def _only_columns(res):
    out = RuleResult(res.rule)
    out.exhaustive = res.exhaustive
    out.instances = [i for i in res.instances if isinstance(i, dict) and ('Table.' in str(i.get('overload', '')) or
                                                                          '.' in str(i.get('overload', '')) and 'row' in str(i))]
    out.findings = [f for f in res.findings if f.construct.startswith(('column:', 'attribute:'))]
    out.unresolved = res.unresolved
    return out


def rule_dtype_columns(P) -> RuleResult:
    """R-DTYPE restricted to table columns and structured attributes (C11)."""
    return _only_columns(rule_dtype(P))


def rule_typesafe_columns(P) -> RuleResult:
    return _only_columns(rule_typesafe(P))


# ----------------------------------------------------------------------
# R-ADMITTED (thorough, C04): overload lookup walks the operand's MRO, so an overload declared for T also receives
# operands of every announceable subclass of T.  Each implementation must be type-safe and dtype-sound for those too.

def rule_admitted(P) -> RuleResult:
    import itertools
    reg = registry.get(P)
    it = Interp(P, reg)
    res = RuleResult('R-ADMITTED')
    res.exhaustive = True

    def admitted(t):
        if t is ANY or t is ASTERISK or t is object:
            return [t]
        return admitted_operand_dtypes(reg, t) or [t]

    def judge(construct, label, impl, lead, declared, intypes, outtype, where):
        pools = [admitted(t) for t in intypes]
        for combo in itertools.product(*pools):
            if list(combo) == list(intypes):
                continue       # the declared signature itself is R-DTYPE / R-TYPESAFE's business
            if any(c in (ANY, ASTERISK, object) for c in combo):
                continue
            r, frame = run_overload(it, impl, lead, [A(t) for t in combo])
            errs = type_errors(frame)
            cn = ', '.join(t.__name__ for t in combo)
            if errs:
                exc, what, atoms = errs[0]
                res.fail(construct, f'admitted:typeerror:{cn}', f'{label} is also selected for operands ({cn}) through the MRO '
                         f'lookup, and its implementation raises {exc} in `{what}` for them', where)
                continue
            a = atoms_of(r)
            if a is not TOP and not isinstance(outtype, OperandDtype):
                bad = sorted(x.__name__ for x in a if not conforms(x, outtype))
                if bad:
                    res.fail(construct, f'admitted:dtype:{cn}', f'{label} applied to ({cn}) returns {", ".join(bad)} but announces '
                             f'{tname(outtype)}', where)
                    continue
            res.ok({'overload': label, 'admitted_operands': cn})
    for f in reg.funcs:
        if f.kind != 'function' or _is_stub(f.impl):
            continue
        lead = [row_struct('postings')] if f.pass_row else [connection_struct()] if f.pass_context else []
        judge(f'function:{f.label}', f.label, f.impl, lead, f.intypes, f.intypes, f.outtype, loc(f.impl))
    for o in reg.ops:
        if len(o.intypes) == 1 and isinstance(o.impl, FuncInfo):
            judge(f'operator:{o.label}', o.label, o.impl, [], o.intypes, o.intypes, o.outtype, loc(o.impl))
    return res
