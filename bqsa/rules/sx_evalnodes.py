"""R-3VL on the term interpreter (C01): AND, OR and COALESCE follow their NULL-aware tables for every operand list of length 1..3,
evaluate each operand at most once, left to right, and stop where the statement says they stop."""
from __future__ import annotations

import itertools

from ..symex import Sym, Falsy, T, SList, Engine, show, gname
from ..loader import AnalysisError, loc
from ..report import RuleResult

QC = 'beanquery.query_compile'
NODE, ROW = Sym('NODE'), Sym('ROW')
V, Z = Sym('VALUE'), Falsy('ZERO_OR_EMPTY')


def _spec_and(vals):
    for i, c in enumerate(vals):
        if c is None:
            return None, i + 1
        if c is False or c is Z:
            return False, i + 1
    return True, len(vals)


def _spec_or(vals):
    r = False
    for i, c in enumerate(vals):
        if c is True or c is V:
            return True, i + 1
        if c is None:
            r = None
    return r, len(vals)


def _spec_coalesce(vals):
    for i, c in enumerate(vals):
        if c is not None:
            return c, i + 1
    return None, len(vals)


SPECS = {
    # operands of any type are accepted: zero / empty values count as false, other values as true, and the result is a boolean
    'EvalAnd': ([None, False, True, Z, V], _spec_and, 'AND stops at its first NULL or false operand and is TRUE otherwise; its value is NULL, FALSE or TRUE'),
    'EvalOr': ([None, False, True, Z, V], _spec_or, 'OR is TRUE at its first true operand, else NULL if any operand is NULL, else FALSE; its value is NULL, FALSE or TRUE'),
    'EvalCoalesce': ([None, Z, V], _spec_coalesce, 'COALESCE is its first non-NULL argument (zero, empty and FALSE are not NULL), else NULL'),
}


def _shown(c):
    return 'NULL' if c is None else 'zero/empty' if c is Z else 'a value' if c is V else str(c).upper()


def rule_3vl(P) -> RuleResult:
    res = RuleResult('R-3VL')
    res.exhaustive = True
    for name, (classes, spec, words) in SPECS.items():
        ci = P.cls(QC, name)
        call = ci.methods.get('__call__')
        if call is None:
            raise AnalysisError(f'anchor vanished: {name}.__call__')
        holder = [a for a in ('args', 'operands') if a in (getattr(ci, 'slots', None) or ())] or ['args']
        ARGS = [Sym(f'OPERAND{i}') for i in range(3)]
        ok = True
        ncases = 0
        for n in (1, 2, 3):
            for vals in itertools.product(classes, repeat=n):
                ncases += 1
                evals = []

                def on_attr(base, attr, ex, _n=n):
                    if base == NODE and attr in ('args', 'operands'):
                        return SList(ARGS[:_n])
                    return NotImplemented

                def on_call(fn, fv, rc, args, kw, ex, node, _vals=vals, _n=n):
                    if fv in ARGS[:_n] and args == (ROW,):
                        i = ARGS.index(fv)
                        evals.append(i)
                        return _vals[i]
                    return NotImplemented
                def oracle(term, ex):
                    # a zero / empty value or any other non-boolean value is not the object False, True or None
                    if isinstance(term, T) and term.op == 'cmp' and term.args[0] in ('is', 'is not') and len(term.args) == 3:
                        a, b = term.args[1], term.args[2]
                        if (a in (Z, V) and (b is None or isinstance(b, bool))) or (b in (Z, V) and (a is None or isinstance(a, bool))):
                            return term.args[0] == 'is not'
                    return None
                paths = Engine(P, on_attr=on_attr, on_call=on_call, oracle=oracle).paths(call, {'self': NODE, call.params[1]: ROW})
                want, upto = spec(vals)
                label = f'{name[4:].upper()}({", ".join(_shown(c) for c in vals)})'
                if len(paths) != 1 or paths[0].decisions:
                    raise AnalysisError(f'{ci.fq}.__call__: not deterministic on concrete operand values: {label}')
                p = paths[0]
                got = p.value if p.outcome == 'return' else f'{p.outcome} {p.value[0] if p.value else ""}'
                same = got is want or (not isinstance(got, bool) and not isinstance(want, bool) and got == want)
                if not same:
                    ok = False
                    res.fail(f'{QC}:{name}.__call__', 'truth-table', f'{name} deviates from its NULL-aware truth table: {label} must be '
                             f'{_shown(want)}, is {_shown(got) if got is None or isinstance(got, (bool, Sym, Falsy)) else show(got)} ({words})', loc(call))
                    break
                if evals != list(range(upto)):
                    ok = False
                    res.fail(f'{QC}:{name}.__call__', 'truth-table', f'{name} deviates from its NULL-aware truth table: {label} must evaluate '
                             f'operands {list(range(upto))} once each, left to right, and stop there ({words}); it evaluates {evals}', loc(call))
                    break
            if not ok:
                break
        if ok:
            res.ok({'node': name, 'operand_lists': ncases, 'input_classes': [_shown(c) for c in classes], 'lengths': [1, 2, 3]})
    return res


# ----------------------------------------------------------------------
# R-EVALALL (C12): a function call evaluates all its operands on every row

def rule_evalall(P) -> RuleResult:
    """The evaluator built by the `function` decorator evaluates every operand once, left to right, for every row - also when an
    earlier operand is NULL - and only then answers NULL or calls the implementation with the values in order.  The `balance` column
    advances its running total when it is evaluated: an operand that is skipped on some rows (`only(cost_currency, balance)` where
    cost_currency is NULL) would make later balances miss those postings."""
    import itertools
    res = RuleResult('R-EVALALL')
    res.exhaustive = True
    qe = P.module('beanquery.query_env')
    cands = [c for q, c in qe.classes.items() if q.startswith('function.<locals>.') and '__call__' in c.methods]
    if len(cands) != 1:
        raise AnalysisError(f'anchor vanished: the evaluator class built by query_env.function ({len(cands)} candidates)')
    call = cands[0].methods['__call__']
    FUNC, CONTEXT = Sym('IMPLEMENTATION'), Sym('CONTEXT')
    OPS = [Sym(f'OPERAND{i}') for i in range(3)]
    ok = True
    n = 0
    for mode in ('plain', 'row', 'context'):
        for vals in itertools.product((None, V), repeat=3):
            n += 1
            evals = []

            def on_attr(base, attr, ex):
                if base == NODE and attr == 'operands':
                    return SList(list(OPS))
                if base == NODE and attr == 'context':
                    return CONTEXT
                return NotImplemented

            def on_call(fn, fv, rc, args, kw, ex, node, _vals=vals):
                if fv in OPS and args == (ROW,):
                    evals.append(OPS.index(fv))
                    return _vals[OPS.index(fv)]
                if fv == FUNC:
                    return T('applied', tuple(args))
                return NotImplemented
            env = {'self': NODE, call.params[1]: ROW, 'func': FUNC, 'pass_row': mode == 'row', 'pass_context': True if mode == 'context' else None}
            paths = Engine(P, on_attr=on_attr, on_call=on_call).paths(call, env)
            label = f'{mode} function, operands ({", ".join(_shown(c) for c in vals)})'
            if len(paths) != 1 or paths[0].decisions:
                by_eq = [t for p in paths for t, _ in p.decisions if isinstance(t, T) and t.op == 'cmp' and t.args[0] in ('in', 'not in', '==', '!=')
                         and (t.args[1] is None or t.args[2] is None)]
                if by_eq:
                    ok = False
                    res.fail(call.fq, 'evalall:null-by-equality', f'{label}: a NULL operand is recognised with `is None`; `{show(by_eq[0])[:60]}` asks '
                             f'the value\'s own __eq__, and a non-NULL value may claim to equal None (a Position with zero units does): the '
                             f'call then yields NULL for a non-NULL operand', loc(call))
                    break
                raise AnalysisError(f'{call.fq}: not deterministic on concrete operand values: {label}')
            p = paths[0]
            extra = {'row': (ROW,), 'context': (CONTEXT,)}.get(mode, ())
            want = None if None in vals else T('applied', extra + tuple(vals))
            if evals != [0, 1, 2]:
                ok = False
                res.fail(call.fq, 'evalall:skipped', f'{label}: every operand must be evaluated once, in order, on every row (columns such as '
                         f'`balance` advance a running total when evaluated); evaluated {evals}', loc(call))
                break
            if p.outcome != 'return' or p.value != want:
                ok = False
                res.fail(call.fq, 'evalall:value', f'{label}: the call must be {"NULL" if want is None else show(want)}; it is '
                         f'{show(p.value) if p.outcome == "return" else p.outcome}', loc(call))
                break
        if not ok:
            break
    if ok:
        res.ok({'evaluator': call.fq, 'cases': n, 'operands_evaluated': 'all, once, left to right', 'null': 'NULL if any operand is NULL'})
    return res


# ----------------------------------------------------------------------
# R-NULLSTRICT (C01, C08): the NULL-propagating evaluator classes, exactly

def rule_nullstrict(P) -> RuleResult:
    """Every evaluator class under a NULL-propagating contract, interpreted for every NULL / non-NULL assignment of its operands and
    every outcome of the comparisons between non-NULL values: the node yields NULL exactly when an operand is NULL, a NULL value
    reaches neither the underlying operation nor an ordering comparison nor arithmetic nor a method call, and with all operands
    present each is evaluated once and the operation's result is returned.  getitem(): a NULL container gives NULL.  Plus the
    census of operator overloads: NOT / IS [NOT] NULL sit on the NULL-aware base, everything else on the NULL-propagating one."""
    import itertools
    from .evalnodes import NULL_CONTRACT
    from .. import registry
    res = RuleResult('R-NULLSTRICT')
    reg = registry.get(P)
    qc = P.module(QC)
    evalnode = P.cls(QC, 'EvalNode')
    for ci in qc.classes.values():
        if ci.parent is not None or not P.is_subclass(ci, evalnode.fq):
            continue
        contract = NULL_CONTRACT.get(ci.name)
        if contract is None:
            inherited = P.find_method(ci, '__call__')
            from ..loader import FuncInfo, ClassInfo
            if isinstance(inherited, FuncInfo) and isinstance(inherited.parent, ClassInfo) \
                    and inherited.parent is not ci and inherited.parent.name in NULL_CONTRACT:
                continue
            res.info(f'new-instance: evaluator class {ci.name} has no NULL contract on record (not checked)')
            continue
        kind, operands, why = contract
        if kind != 'strict':
            continue
        call = P.find_method(ci, '__call__')
        if call is None or not hasattr(call, 'node'):
            raise AnalysisError(f'anchor vanished: {ci.name}.__call__')
        OPS = {a: Sym('NODE_' + a) for a in operands}
        # non-NULL values of undecided truth (zero amounts, empty strings, FALSE are values, not NULL); a bare symbol would be true
        VALS = {a: T('attr', (Sym('ROW_VALUES'), a)) for a in operands}
        ok = True
        ncases = 0
        for combo in itertools.product((None, 'v'), repeat=len(operands)):
            assign = {a: (None if c is None else VALS[a]) for a, c in zip(operands, combo)}
            for outcomes in itertools.product((True, False), repeat=2):
                ncases += 1
                evals = []
                asked = []

                def on_attr(base, attr, ex):
                    if base == NODE and attr in OPS:
                        return OPS[attr]
                    return NotImplemented

                def on_call(fn, fv, rc, args, kw, ex, node, _assign=assign):
                    for a, o in OPS.items():
                        if fv == o and args == (ROW,):
                            evals.append(a)
                            return _assign[a]
                    import ast as _ast
                    if isinstance(node.func, _ast.Attribute) and rc is None:
                        from ..symex import Raise
                        raise Raise('AttributeError', (node.func.attr,))
                    return NotImplemented

                def oracle(term, ex, _oc=outcomes):
                    if isinstance(term, T) and term.op == 'cmp' and term.args[0] in ('is', 'is not') and None in term.args[1:] and \
                            any(x in VALS.values() for x in term.args[1:]):
                        return term.args[0] == 'is not'          # the values are not NULL
                    if isinstance(term, T) and term.op == 'cmp' and term.args[0] in ('<', '<=', '>', '>=', '==', '!='):
                        asked.append(1)
                        return _oc[(len(asked) - 1) % len(_oc)]
                    return None
                paths = Engine(P, on_attr=on_attr, on_call=on_call, oracle=oracle).paths(call, {'self': NODE, call.params[1]: ROW})
                desc = ', '.join(f'{a} {"NULL" if v is None else "non-NULL"}' for a, v in assign.items())
                on_truth = [t for p_ in paths for t, _ in p_.decisions if t in VALS.values() or (isinstance(t, T) and t.op == 'not' and t.args[0] in VALS.values())]
                if on_truth and all((t in VALS.values() or (isinstance(t, T) and t.op == 'not')) for p_ in paths for t, _ in p_.decisions):
                    ok = False
                    a_ = next(a for a, v in VALS.items() if v == (on_truth[0] if on_truth[0] in VALS.values() else on_truth[0].args[0]))
                    res.fail(f'{ci.fq}.__call__', f'nullstrict:falsy:{a_}', f'{ci.name}: the *truth* of the non-NULL value of `{a_}` decides the result '
                             f'({desc}): a zero amount, an empty string, an empty inventory or FALSE is taken for NULL', loc(call))
                    break
                if len(paths) != 1 or paths[0].decisions:
                    raise AnalysisError(f'{ci.fq}.__call__: not deterministic with {desc}: {[show(t)[:40] for p in paths for t, _ in p.decisions][:2]}')
                p = paths[0]
                want_null = any(v is None for v in assign.values())
                nulluse = [e for e in p.events if e[0] == 'null-use']
                passed = [e for e in p.events if e[0] == 'call' and (None in e[2] or any(v is None for _, v in e[3]))]
                problem = None
                if nulluse:
                    problem = f'a NULL operand value reaches `{show(nulluse[0][2])} {nulluse[0][1]} {show(nulluse[0][3])}` (TypeError when executed)'
                elif passed:
                    problem = f'a NULL operand value is passed to `{passed[0][1]}`'
                elif p.outcome != 'return':
                    problem = f'it {p.outcome}s {p.value[0] if p.value else ""}'
                elif (p.value is None) != want_null:
                    problem = f'it yields {"NULL" if p.value is None else show(p.value)[:40]}'
                elif not want_null and sorted(evals) != sorted(operands):
                    problem = f'it evaluates {evals}, not every operand exactly once'
                if problem and ok:
                    ok = False
                    res.fail(ci.fq + '.__call__', 'null-table', f'{ci.name} must yield NULL exactly when an operand is NULL ({why}); with {desc}: '
                             f'{problem}', loc(call))
                if not asked:
                    break
            if not ok:
                break
        if ok:
            res.ok({'class': ci.name, 'operands': operands, 'null_truth_table_cases': ncases, 'why': why})
    # getitem(container, key[, default]): NULL container -> NULL, whatever the other arguments
    for name in ('GetItem2', 'GetItem3'):
        ci = P.cls('beanquery.query_env', name)
        call = ci.methods.get('__call__')
        if call is None:
            raise AnalysisError(f'anchor vanished: {name}.__call__')
        n = 2 if name == 'GetItem2' else 3
        OPL = [Sym(f'ARGUMENT{i}') for i in range(n)]
        ok = True
        for rest in itertools.product((None, V), repeat=n - 1):
            def on_attr2(base, attr, ex):
                if base == NODE and attr == 'operands':
                    return SList(list(OPL))
                return NotImplemented

            def on_call2(fn, fv, rc, args, kw, ex, node, _rest=rest):
                if fv in OPL and args == (ROW,):
                    i = OPL.index(fv)
                    return None if i == 0 else _rest[i - 1]
                import ast as _ast
                if isinstance(node.func, _ast.Attribute) and rc is None:
                    from ..symex import Raise
                    raise Raise('AttributeError', (node.func.attr,))
                return NotImplemented
            for p in Engine(P, on_attr=on_attr2, on_call=on_call2).paths(call, {'self': NODE, call.params[1]: ROW}):
                if (p.outcome != 'return' or p.value is not None) and ok:
                    ok = False
                    res.fail(ci.fq + '.__call__', 'null-table', f'{name}: a NULL container must give NULL; it '
                             f'{"gives " + show(p.value)[:40] if p.outcome == "return" else p.outcome + " " + str(p.value[0])}', loc(call))
        if ok:
            res.ok({'class': name, 'operands': ['container'], 'cases': 2 ** (n - 1)})
    # census: which operator kinds sit on which base
    aware = {'Not', 'IsNull', 'IsNotNull'}
    for o in reg.ops:
        base = o.base.name if o.base is not None else '?'
        contract = NULL_CONTRACT.get(base, ('?',))[0]
        if o.kind in aware:
            if contract != 'aware':
                res.fail(f'operator:{o.label}', 'base', f'{o.kind} must see NULL operands (NOT NULL is TRUE, IS [NOT] NULL '
                         f'are NULL-aware) but is built on the NULL-propagating {base}')
            else:
                res.ok({'overload': o.label, 'base': base, 'contract': 'aware'})
        else:
            if contract != 'strict':
                res.fail(f'operator:{o.label}', 'base', f'{o.kind} must yield NULL for a NULL operand but is built on {base}, '
                         f'which passes NULL to the operator function',
                         f'{o.cls.info.module.path}:{getattr(o.site, "lineno", 0)}')
            else:
                res.ok({'overload': o.label, 'base': base, 'contract': 'strict'})
    return res


# ----------------------------------------------------------------------
# R-CHILDNODES (C02, C05): every operand a node is built with is among its child nodes

CHILD_PARAMS = ('args', 'operands', 'operand', 'left', 'right', 'lower', 'upper')


def rule_childnodes(P) -> RuleResult:
    """Aggregate detection, the mixed / nested aggregate checks and the collection of the aggregates to update all walk the tree through
    EvalNode.childnodes().  For every evaluator class, the constructor is interpreted with symbolic operand nodes (a list of two for
    `args` / `operands`) and childnodes() is then interpreted on the attributes it stored: every operand must be yielded.  An operand
    kept in a form childnodes() does not look into (a tuple, an attribute outside __slots__) hides the aggregates below it."""
    from .eqfaith import _slots
    from ..symex import gname
    res = RuleResult('R-CHILDNODES')
    res.exhaustive = True
    qc = P.module(QC)
    evalnode = P.cls(QC, 'EvalNode')
    cn = evalnode.methods.get('childnodes')
    if cn is None:
        raise AnalysisError('anchor vanished: EvalNode.childnodes')
    n = 0
    for ci in qc.classes.values():
        if ci.parent is not None or ci is evalnode or not P.is_subclass(ci, evalnode.fq):
            continue
        init = P.find_method(ci, '__init__')
        if init is None or not hasattr(init, 'params'):
            continue
        carriers = [p for p in init.params[1:] if p in CHILD_PARAMS]
        if not carriers:
            continue
        n += 1
        OBJ = Sym('NODE_UNDER_CONSTRUCTION')
        env = {'self': OBJ}
        kids = []
        for p_ in init.params[1:]:
            if p_ in ('args', 'operands'):
                ks = [Sym(f'CHILD_{p_}_0'), Sym(f'CHILD_{p_}_1')]
                kids += ks
                env[p_] = SList(list(ks))
            elif p_ in CHILD_PARAMS:
                k = Sym(f'CHILD_{p_}')
                kids.append(k)
                env[p_] = k
            else:
                env[p_] = Sym(f'ARG_{p_}')

        def on_attr0(base, attr, ex):
            if base in kids and attr == 'dtype':
                return Sym('DTYPE')
            return NotImplemented
        ips = Engine(P, on_attr=on_attr0, max_depth=3).paths(init, env)
        slots, _ = _slots(P, ci)
        for ip in ips:
            if ip.outcome == 'raise':
                continue
            heap = dict(ip.heap)

            def on_attr(base, attr, ex, _h=heap):
                if base == OBJ and attr == '__slots__':
                    return SList(list(slots))
                v = _h.get(T('attr', (base, attr)))
                return v if v is not None else NotImplemented

            def on_call(fn, fv, rc, args, kw, ex, node, _h=heap):
                if fn == 'getattr' and len(args) >= 2 and args[0] == OBJ and isinstance(args[1], str):
                    v = _h.get(T('attr', (OBJ, args[1])))
                    if v is None and len(args) == 3:
                        return args[2]
                    return v
                return NotImplemented

            def on_isinstance(v, c, ex):
                name = gname(c).split('.')[-1]
                if name == 'EvalNode':
                    return isinstance(v, Sym) and v in kids
                if name == 'list':
                    return isinstance(v, SList) and v.kind == 'list'
                if name == 'tuple':
                    return isinstance(v, T) and v.op == 'tuple'
                return False
            yielded = []
            for p in Engine(P, on_attr=on_attr, on_call=on_call, on_isinstance=on_isinstance, inline_generators=True).paths(cn, {'self': OBJ}):
                yielded += [e[1] for e in p.events if e[0] == 'yield']
            missing = [k for k in kids if k not in yielded]
            if missing:
                res.fail(ci.fq, 'childnodes:hidden', f'{ci.name}: the operand(s) {[k.name for k in missing]} it is built with are not among its child '
                         f'nodes (slots walked: {list(slots)}; stored as {[(a, show(heap.get(T("attr", (OBJ, a))))[:40]) for a in slots]}): an '
                         f'aggregate below them is not found, so the query is not treated as an aggregate query or the aggregate is never '
                         f'updated', loc(ci))
            else:
                res.ok({'class': ci.name, 'operands': [k.name for k in kids], 'all_yielded_by_childnodes': True})
    if n < 6:
        raise AnalysisError(f'only {n} evaluator classes with operand parameters found')
    return res


# ----------------------------------------------------------------------
# R-ACCESSEVAL (C01, C11): what a subscript / attribute node computes on a non-NULL container

def rule_accesseval(P) -> RuleResult:
    """EvalGetItem, EvalGetter, GetItem2 and GetItem3 on terms with a non-NULL container: `x[key]` is the dictionary's entry for that
    key, NULL when the key is missing (dict.get: never a KeyError); getitem(x, key, default) gives the default then; `x.field` applies
    the field getter of the structure to the value.  (R-NULLSTRICT decides the NULL container; R-ACCESSNODE which node is built.)"""
    res = RuleResult('R-ACCESSEVAL')
    res.exhaustive = True
    qc = P.module('beanquery.query_compile')
    qe = P.module('beanquery.query_env')
    NODE, ROW, VALUE = Sym('NODE'), Sym('ROW'), Sym('CONTAINER_VALUE')
    KEYV, DEFV = Sym('KEY_VALUE'), Sym('DEFAULT_VALUE')
    cases = (
        (qc, 'EvalGetItem', lambda: {T('call', (f'{show(VALUE)}.get', (T('attr', (NODE, 'key')),), ())),
                                     T('call', (f'{show(VALUE)}.get', (T('attr', (NODE, 'key')), None), ()))}, 'container.get(key)'),
        (qc, 'EvalGetter', lambda: {T('call', (show(T('attr', (NODE, 'getter'))), (VALUE,), ()))}, 'getter(container)'),
        (qe, 'GetItem2', lambda: {T('call', (f'{show(VALUE)}.get', (KEYV,), ())), T('call', (f'{show(VALUE)}.get', (KEYV, None), ()))}, 'container.get(key)'),
        (qe, 'GetItem3', lambda: {T('call', (f'{show(VALUE)}.get', (KEYV, DEFV), ()))}, 'container.get(key, default)'),
    )
    for mod, cname, want, words in cases:
        ci = mod.classes.get(cname)
        call = ci.methods.get('__call__') if ci else None
        if call is None:
            raise AnalysisError(f'anchor vanished: {cname}.__call__')
        OPS = [Sym('OPERAND_NODE0'), Sym('OPERAND_NODE1'), Sym('OPERAND_NODE2')]

        def on_attr(base, attr, ex):
            if base == NODE and attr == 'operand':
                return OPS[0]
            if base == NODE and attr == 'operands':
                return SList(OPS[:2] if cname == 'GetItem2' else OPS)
            return NotImplemented

        def on_call(fn, fv, rc, a, k, ex, nd):
            if fv in OPS and tuple(a) == (ROW,):
                return (VALUE, KEYV, DEFV)[OPS.index(fv)]
            return NotImplemented
        n = 0
        good = True
        for p in Engine(P, on_attr=on_attr, on_call=on_call).paths(call, {'self': NODE, call.params[1]: ROW}):
            if any(t == T('cmp', ('is', VALUE, None)) and o or t == T('cmp', ('is not', VALUE, None)) and not o for t, o in p.decisions):
                continue
            n += 1
            if p.outcome != 'return' or p.value not in want():
                good = False
                res.fail(call.fq, 'accesseval:value', f'{cname} on a non-NULL container is {words}; it '
                         f'{"gives `" + show(p.value)[:80] + "`" if p.outcome == "return" else "raises " + str(p.value[0])}', loc(call))
        if n == 0:
            raise AnalysisError(f'{call.fq}: no path for a non-NULL container')
        # what is stored under a key is not known when the statement is compiled: subscripts announce `object` (operators then apply
        # the implicit cast); an attribute node announces the dtype it is given (R-ACCESSNODE: the field's type)
        init = ci.methods.get('__init__')
        if init is not None and cname != 'EvalGetter':
            announced = []

            def on_call_i(fn, fv, rc, a, k, ex, nd):
                if str(fn).endswith('__init__'):
                    announced.append(tuple(a) + tuple(v for _, v in k))
                    return None
                return NotImplemented
            env = {'self': NODE}
            for i_, prm in enumerate(init.params[1:]):
                env[prm] = Sym(f'CTOR_ARG{i_}')
            for p in Engine(P, on_call=on_call_i, on_attr=lambda b, a, e: Sym('DTYPE_OF_' + str(b)) if a == 'dtype' else NotImplemented,
                            max_depth=0).paths(init, env):
                pass
            dt = [x for tup in announced for x in tup if gname(x).split('.')[-1] == 'object']
            if not announced or not dt or any(isinstance(x, Sym) and x.name.startswith('DTYPE_OF_') for tup in announced for x in tup):
                good = False
                res.fail(init.fq, 'accesseval:dtype', f'{cname} must announce `object`: the type of what a dictionary holds under a key is not '
                         f'known at compile time (announcing the type of the default, or of anything else, lets typed operators and renderers '
                         f'run on values of another type); it announces `{[show(x) for tup in announced for x in tup]}`', loc(init))
        if good:
            res.ok({'evaluator': cname, 'non_null_container': words})
    return res
