"""R-3VL on the term interpreter (C01): AND, OR and COALESCE follow their NULL-aware tables for every operand list of length 1..3,
evaluate each operand at most once, left to right, and stop where the statement says they stop."""
from __future__ import annotations

import itertools

from ..symex import Sym, Falsy, T, SList, Engine, show
from ..loader import AnalysisError, loc
from ..report import RuleResult

QC = 'beanquery.query_compile'
NODE, ROW = Sym('NODE'), Sym('ROW')
V, Z = Sym('VALUE'), Falsy('ZERO_OR_EMPTY')


def _spec_and(vals):
    for i, c in enumerate(vals):
        if c is None:
            return None, i + 1
        if c is False or c is Z:
            return False, i + 1
    return True, len(vals)


def _spec_or(vals):
    r = False
    for i, c in enumerate(vals):
        if c is True or c is V:
            return True, i + 1
        if c is None:
            r = None
    return r, len(vals)


def _spec_coalesce(vals):
    for i, c in enumerate(vals):
        if c is not None:
            return c, i + 1
    return None, len(vals)


SPECS = {
    # operands of any type are accepted: zero / empty values count as false, other values as true, and the result is a boolean
    'EvalAnd': ([None, False, True, Z, V], _spec_and, 'AND stops at its first NULL or false operand and is TRUE otherwise; its value is NULL, FALSE or TRUE'),
    'EvalOr': ([None, False, True, Z, V], _spec_or, 'OR is TRUE at its first true operand, else NULL if any operand is NULL, else FALSE; its value is NULL, FALSE or TRUE'),
    'EvalCoalesce': ([None, Z, V], _spec_coalesce, 'COALESCE is its first non-NULL argument (zero, empty and FALSE are not NULL), else NULL'),
}


def _shown(c):
    return 'NULL' if c is None else 'zero/empty' if c is Z else 'a value' if c is V else str(c).upper()


def rule_3vl(P) -> RuleResult:
    res = RuleResult('R-3VL')
    res.exhaustive = True
    for name, (classes, spec, words) in SPECS.items():
        ci = P.cls(QC, name)
        call = ci.methods.get('__call__')
        if call is None:
            raise AnalysisError(f'anchor vanished: {name}.__call__')
        holder = [a for a in ('args', 'operands') if a in (getattr(ci, 'slots', None) or ())] or ['args']
        ARGS = [Sym(f'OPERAND{i}') for i in range(3)]
        ok = True
        ncases = 0
        for n in (1, 2, 3):
            for vals in itertools.product(classes, repeat=n):
                ncases += 1
                evals = []

                def on_attr(base, attr, ex, _n=n):
                    if base == NODE and attr in ('args', 'operands'):
                        return SList(ARGS[:_n])
                    return NotImplemented

                def on_call(fn, fv, rc, args, kw, ex, node, _vals=vals, _n=n):
                    if fv in ARGS[:_n] and args == (ROW,):
                        i = ARGS.index(fv)
                        evals.append(i)
                        return _vals[i]
                    return NotImplemented
                paths = Engine(P, on_attr=on_attr, on_call=on_call).paths(call, {'self': NODE, call.params[1]: ROW})
                want, upto = spec(vals)
                label = f'{name[4:].upper()}({", ".join(_shown(c) for c in vals)})'
                if len(paths) != 1 or paths[0].decisions:
                    raise AnalysisError(f'{ci.fq}.__call__: not deterministic on concrete operand values: {label}')
                p = paths[0]
                got = p.value if p.outcome == 'return' else f'{p.outcome} {p.value[0] if p.value else ""}'
                same = got is want or (not isinstance(got, bool) and not isinstance(want, bool) and got == want)
                if not same:
                    ok = False
                    res.fail(f'{QC}:{name}.__call__', 'truth-table', f'{name} deviates from its NULL-aware truth table: {label} must be '
                             f'{_shown(want)}, is {_shown(got) if got is None or isinstance(got, (bool, Sym, Falsy)) else show(got)} ({words})', loc(call))
                    break
                if evals != list(range(upto)):
                    ok = False
                    res.fail(f'{QC}:{name}.__call__', 'truth-table', f'{name} deviates from its NULL-aware truth table: {label} must evaluate '
                             f'operands {list(range(upto))} once each, left to right, and stop there ({words}); it evaluates {evals}', loc(call))
                    break
            if not ok:
                break
        if ok:
            res.ok({'node': name, 'operand_lists': ncases, 'input_classes': [_shown(c) for c in classes], 'lengths': [1, 2, 3]})
    return res


# ----------------------------------------------------------------------
# R-EVALALL (C12): a function call evaluates all its operands on every row

def rule_evalall(P) -> RuleResult:
    """The evaluator built by the `function` decorator evaluates every operand once, left to right, for every row - also when an
    earlier operand is NULL - and only then answers NULL or calls the implementation with the values in order.  The `balance` column
    advances its running total when it is evaluated: an operand that is skipped on some rows (`only(cost_currency, balance)` where
    cost_currency is NULL) would make later balances miss those postings."""
    import itertools
    res = RuleResult('R-EVALALL')
    res.exhaustive = True
    qe = P.module('beanquery.query_env')
    cands = [c for q, c in qe.classes.items() if q.startswith('function.<locals>.') and '__call__' in c.methods]
    if len(cands) != 1:
        raise AnalysisError(f'anchor vanished: the evaluator class built by query_env.function ({len(cands)} candidates)')
    call = cands[0].methods['__call__']
    FUNC, CONTEXT = Sym('IMPLEMENTATION'), Sym('CONTEXT')
    OPS = [Sym(f'OPERAND{i}') for i in range(3)]
    ok = True
    n = 0
    for mode in ('plain', 'row', 'context'):
        for vals in itertools.product((None, V), repeat=3):
            n += 1
            evals = []

            def on_attr(base, attr, ex):
                if base == NODE and attr == 'operands':
                    return SList(list(OPS))
                if base == NODE and attr == 'context':
                    return CONTEXT
                return NotImplemented

            def on_call(fn, fv, rc, args, kw, ex, node, _vals=vals):
                if fv in OPS and args == (ROW,):
                    evals.append(OPS.index(fv))
                    return _vals[OPS.index(fv)]
                if fv == FUNC:
                    return T('applied', tuple(args))
                return NotImplemented
            env = {'self': NODE, call.params[1]: ROW, 'func': FUNC, 'pass_row': mode == 'row', 'pass_context': True if mode == 'context' else None}
            paths = Engine(P, on_attr=on_attr, on_call=on_call).paths(call, env)
            label = f'{mode} function, operands ({", ".join(_shown(c) for c in vals)})'
            if len(paths) != 1 or paths[0].decisions:
                raise AnalysisError(f'{call.fq}: not deterministic on concrete operand values: {label}')
            p = paths[0]
            extra = {'row': (ROW,), 'context': (CONTEXT,)}.get(mode, ())
            want = None if None in vals else T('applied', extra + tuple(vals))
            if evals != [0, 1, 2]:
                ok = False
                res.fail(call.fq, 'evalall:skipped', f'{label}: every operand must be evaluated once, in order, on every row (columns such as '
                         f'`balance` advance a running total when evaluated); evaluated {evals}', loc(call))
                break
            if p.outcome != 'return' or p.value != want:
                ok = False
                res.fail(call.fq, 'evalall:value', f'{label}: the call must be {"NULL" if want is None else show(want)}; it is '
                         f'{show(p.value) if p.outcome == "return" else p.outcome}', loc(call))
                break
        if not ok:
            break
    if ok:
        res.ok({'evaluator': call.fq, 'cases': n, 'operands_evaluated': 'all, once, left to right', 'null': 'NULL if any operand is NULL'})
    return res
