"""State rules on the term interpreter: R-PLACEHOLDER (parameter binding), R-TABLECOPY (FROM qualifiers on a copy),
R-REENTRANT (compiler state restored around a nested SELECT)."""
from __future__ import annotations

import ast

from ..symex import Sym, T, SList, Engine, Raise, show, gname, contains
from ..loader import AnalysisError, loc
from ..report import RuleResult

CO = 'beanquery.compiler'
QE = 'beanquery.query_env'
SELF = Sym('COMPILER')


def _attr(base, name):
    return T('attr', (base, name))


def rule_placeholder(P) -> RuleResult:
    res = RuleResult('R-PLACEHOLDER')
    res.exhaustive = True
    comp = P.cls(CO, 'Compiler')
    c = comp.methods.get('compile')
    ph = comp.methods.get('_placeholder')
    if c is None or ph is None:
        raise AnalysisError('anchor vanished: Compiler.compile / _placeholder')
    QUERY, PARAMS, COMPILED = Sym('QUERY_AST'), Sym('PARAMETERS'), Sym('COMPILED')
    # two placeholders met by walk() in an order that differs from their order in the text, and another node between them
    A, B, OTHER = Sym('PLACEHOLDER_late_in_text'), Sym('PLACEHOLDER_early_in_text'), Sym('OTHER_NODE')
    POS = {A: 30, B: 10}
    cases = [
        # (label, names of A and B, parameters kind, parameter detail, expected)
        ('named, mapping with every name', ('x', 'y'), 'mapping', 'complete', 'ok'),
        ('named, mapping lacking a name', ('x', 'y'), 'mapping', 'missing', 'ProgrammingError'),
        ('named, a sequence', ('x', 'y'), 'sequence', 'n=2', 'TypeError'),
        ('named, no parameters', ('x', 'y'), 'none', '', 'TypeError'),
        ('positional, sequence of the same length', (None, None), 'sequence', 'n=2', 'ok'),
        ('positional, sequence of another length', (None, None), 'sequence', 'n=1', 'ProgrammingError'),
        ('positional, a mapping', (None, None), 'mapping', 'complete', 'TypeError'),
        ('positional, no parameters', (None, None), 'none', '', 'TypeError'),
        ('mixed named and positional', ('x', None), 'sequence', 'n=2', 'ProgrammingError'),
        ('mixed named and positional, mapping', ('x', None), 'mapping', 'complete', 'ProgrammingError'),
        ('no placeholders', None, 'none', '', 'ok'),
    ]
    for label, names, kind, detail, want in cases:
        params = None if kind == 'none' else PARAMS

        def on_attr(base, attr, ex):
            if base in POS and attr == 'name':
                return names[0 if base == A else 1]
            if base in POS and attr == 'parseinfo':
                return T('parseinfo', (base,))
            if isinstance(base, T) and base.op == 'parseinfo' and attr == 'pos':
                return POS[base.args[0]]
            return NotImplemented

        def on_call(fname, fval, recv, args, kwargs, ex, node):
            f = str(fname)
            if recv == QUERY and f.endswith('.walk'):
                return SList([A, OTHER, B] if names is not None else [OTHER])
            if f.split('.')[-1] == '_compile' and recv == SELF:
                return COMPILED
            if recv == PARAMS and f.endswith('.keys'):
                return T('keys', ())
            if f == 'len' and args == (PARAMS,):
                return 2 if detail == 'n=2' else 1 if detail == 'n=1' else T('call', ('len', args, ()))
            return NotImplemented

        def on_isinstance(v, cls, ex):
            cn = gname(cls)
            if v in (A, B):
                return cn.endswith('Placeholder')
            if v == OTHER:
                return False
            if v is None or v == PARAMS:
                if cn.endswith('Mapping'):
                    return kind == 'mapping'
                if cn.endswith('Sequence'):
                    return kind == 'sequence'
            return NotImplemented

        def oracle(term, ex):
            # names - parameters.keys(): the names that have no parameter
            if isinstance(term, T) and term.op == 'bin' and term.args[0] == '-' and term.args[2] == T('keys', ()):
                return detail == 'missing'
            if isinstance(term, T) and term.op == 'call' and str(term.args[0]).endswith('issubset'):
                return detail != 'missing'
            if isinstance(term, T) and term.op == 'cmp' and term.args[2] == T('keys', ()) and term.args[0] in ('<=', '>'):
                return (detail != 'missing') == (term.args[0] == '<=')
            return None
        n0 = len(res.findings)
        for p in Engine(P, on_attr=on_attr, on_call=on_call, on_isinstance=on_isinstance, oracle=oracle).paths(
                c, {'self': SELF, c.params[1]: QUERY, c.params[2]: params}):
            if p.decisions:
                res.fail(c.fq, 'placeholder:condition', f'{label}: compile() branches on `{show(p.decisions[0][0])[:80]}`, which the rule does '
                         f'not understand', loc(c))
                break
            got = 'ok' if p.outcome == 'return' else p.value[0] if p.outcome == 'raise' else p.outcome
            if got != want:
                detail_key = 'placeholder:check' if want != 'ok' else 'placeholder:rejects'
                res.fail(c.fq, detail_key, f'{label}: compile() gives {got}; it must '
                         + ('compile the statement' if want == 'ok' else f'raise {want}'), loc(c))
                continue
            # nothing is written into the statement
            w = [e for e in p.events if e[0] in ('store', 'aug') and any(contains(e[1], x) for x in (A, B, OTHER, QUERY))]
            if w:
                res.fail(c.fq, 'placeholder:numbering', f'{label}: compile() writes `{show(w[0][1])}` into the statement, which belongs to the '
                         f'caller and may be compiled again', loc(c))
                continue
            if want != 'ok':
                continue
            if p.value != COMPILED or p.heap.get(_attr(SELF, 'parameters'), None) is not params and p.heap.get(_attr(SELF, 'parameters')) != params:
                res.fail(c.fq, 'placeholder:lookup', f'{label}: compile() must keep the parameters and return the compiled statement', loc(c))
                continue
            if names == (None, None):
                # the numbering stored on the compiler: textual order, early placeholder first
                stores = {k: v for k, v in p.heap.items() if isinstance(k, T) and k.op == 'attr' and k.args[0] == SELF and k.args[1] != 'parameters'}
                numbering = None
                for k, v in stores.items():
                    if isinstance(v, SList) and v.kind == 'dict':
                        numbering = (k.args[1], dict(v.items))
                want_num = {T('call', ('id', (B,), ())): 0, T('call', ('id', (A,), ())): 1}
                if numbering is None:
                    res.fail(c.fq, 'placeholder:numbering', f'{label}: the numbering of positional placeholders is not kept on the compiler '
                             f'(stores: {sorted(k.args[1] for k in stores)})', loc(c))
                    continue
                if numbering[1] != want_num:
                    res.fail(c.fq, 'placeholder:order', f'{label}: positional parameters must bind in left-to-right textual order: the '
                             f'placeholder at text position 10 must be number 0 and the one at 30 number 1, whatever the order walk() meets '
                             f'them in; got {{{", ".join(f"{show(k)}: {v}" for k, v in numbering[1].items())}}}', loc(c))
                    continue
                # _placeholder reads it back
                attr = numbering[0]
                NODE = Sym('PLACEHOLDER')
                for named in (True, False):
                    def on_attr2(base, a, ex):
                        if base == NODE and a == 'name':
                            return 'x' if named else None
                        return NotImplemented

                    def on_call2(fname, fval, recv, args, kwargs, ex, node):
                        if str(fname).split('.')[-1] == 'EvalConstant':
                            return T('new', ('EvalConstant', args))
                        return NotImplemented
                    for q in Engine(P, on_attr=on_attr2, on_call=on_call2).paths(ph, {'self': SELF, ph.params[1]: NODE}):
                        key = 'x' if named else T('item', (_attr(SELF, attr), T('call', ('id', (NODE,), ()))))
                        wantv = T('new', ('EvalConstant', (T('item', (_attr(SELF, 'parameters'), key)),)))
                        if q.value != wantv:
                            res.fail(ph.fq, 'placeholder:lookup' if named else 'placeholder:numbering',
                                     f'a {"named" if named else "positional"} placeholder must evaluate to the parameter '
                                     f'{"it names" if named else "with the number compile() gave it (self." + attr + "[id(node)])"}; '
                                     f'_placeholder returns `{show(q.value)[:100]}`', loc(ph))
        if len(res.findings) == n0:
            res.ok({'case': label, 'outcome': want})
    return res


def rule_tablecopy(P) -> RuleResult:
    res = RuleResult('R-TABLECOPY')
    res.exhaustive = True
    m = P.module(QE)
    bt = m.classes.get('BeanTable')
    upd = bt.methods.get('update') if bt else None
    if upd is None:
        raise AnalysisError('anchor vanished: BeanTable.update')
    TABLE = Sym('CONNECTION_TABLE')
    O, C, X = Sym('OPEN'), Sym('CLOSE'), Sym('CLEAR')
    kw = T('dict', (('open', O), ('close', C), ('clear', X)))

    def on_call(fname, fval, recv, args, kwargs, ex, node):
        f = str(fname)
        if f in ('copy.copy', 'copy.deepcopy', 'copy') and args == (TABLE,):
            return T('new', ('copy', TABLE))
        if recv == kw and f.endswith('.items'):
            return SList([T('tuple', kv) for kv in kw.args])
        return NotImplemented
    a = upd.node.args
    env = {'self': TABLE}
    if a.kwarg:
        env[a.kwarg.arg] = kw
    else:
        for p_, v in zip(upd.params[1:], (O, C, X)):
            env[p_] = v
    ok = True
    for p in Engine(P, on_call=on_call).paths(upd, env):
        COPY = T('new', ('copy', TABLE))
        writes_self = [e for e in p.events if e[0] in ('store', 'aug') and isinstance(e[1], T) and e[1].args[0] == TABLE]
        if writes_self:
            ok = False
            res.fail(upd.fq, 'tablecopy:self-write' if p.value == COPY else 'tablecopy:nocopy', f'BeanTable.update() writes `{show(writes_self[0][1])}` on '
                     f'the table held by the connection: OPEN/CLOSE/CLEAR of one statement stick to the table every later statement (and every '
                     f'other thread) scans', loc(upd))
            continue
        if p.outcome != 'return' or p.value != COPY:
            ok = False
            res.fail(upd.fq, 'tablecopy:nocopy', f'OPEN/CLOSE/CLEAR must be applied to a copy of the table (copy.copy(self)) and that copy '
                     f'returned; update() returns `{show(p.value)[:80]}`', loc(upd))
            continue
        for name, v in (('open', O), ('close', C), ('clear', X)):
            if p.heap.get(_attr(COPY, name)) != v:
                ok = False
                res.fail(upd.fq, f'tablecopy:{name}', f'update() must set `{name}` on the copy to the value of the clause; it holds '
                         f'`{show(p.heap.get(_attr(COPY, name)))}`', loc(upd))
    # clauses the statement does not have are reset: the table the compiler updates may be the enclosing SELECT's table
    # (a nested SELECT is compiled while the enclosing one's clauses are in force), so absent clauses must overwrite
    kw0 = T('dict', (('open', None), ('close', None), ('clear', None)))

    def on_call0(fname, fval, recv, args, kwargs, ex, node):
        f = str(fname)
        if f in ('copy.copy', 'copy.deepcopy', 'copy') and args == (TABLE,):
            return T('new', ('copy', TABLE))
        if recv == kw0 and f.endswith('.items'):
            return SList([T('tuple', kv) for kv in kw0.args])
        return NotImplemented
    env0 = {'self': TABLE}
    if a.kwarg:
        env0[a.kwarg.arg] = kw0
    else:
        for p_ in upd.params[1:]:
            env0[p_] = None
    for p in Engine(P, on_call=on_call0).paths(upd, env0):
        COPY = T('new', ('copy', TABLE))
        for name in ('open', 'close', 'clear'):
            st = [e for e in p.events if e[0] == 'store' and e[1] == _attr(COPY, name)]
            if not st or st[-1][2] is not None:
                ok = False
                res.fail(upd.fq, f'tablecopy:reset:{name}', f'update({name}=None) must reset `{name}` on the copy: a FROM clause without '
                         f'{name.upper()} does not have it, whatever the table it is applied to carried (a nested SELECT is compiled on the '
                         f'table of the enclosing one and would inherit its clauses)', loc(upd))
    if ok:
        res.ok({'method': upd.fq, 'writes': 'only to copy.copy(self), which is returned', 'fields': ['open', 'close', 'clear'],
                'absent_clauses': 'reset to None'})
    return res


def rule_reentrant(P) -> RuleResult:
    """Compiler state written while a (nested) SELECT is compiled is what it was before, on every exit of the SELECT handler."""
    res = RuleResult('R-REENTRANT')
    res.exhaustive = True
    comp = P.cls(CO, 'Compiler')
    written = set()
    # methods that only run before compilation proper starts: __init__, compile and helpers called from nowhere else
    handlers = {n for n, f in comp.methods.items() if any('register' in ast.unparse(d) for d in f.node.decorator_list)}
    callers = {}
    for name, fi in comp.methods.items():
        for n in ast.walk(fi.node):
            if isinstance(n, ast.Attribute) and isinstance(n.value, ast.Name) and n.value.id == 'self' and n.attr in comp.methods:
                callers.setdefault(n.attr, set()).add(name)
    entry_only = {'__init__', 'compile'}
    changed = True
    while changed:
        changed = False
        for name in comp.methods:
            if name not in entry_only and name not in handlers and name != '_compile' and callers.get(name) \
                    and callers[name] <= entry_only:
                entry_only.add(name)
                changed = True
    for name, fi in comp.methods.items():
        if name in entry_only:
            continue
        for n in ast.walk(fi.node):
            if isinstance(n, (ast.Assign, ast.AugAssign, ast.AnnAssign)):
                for t in (n.targets if isinstance(n, ast.Assign) else [n.target]):
                    for x in ast.walk(t):
                        if isinstance(x, ast.Attribute) and isinstance(x.value, ast.Name) and x.value.id == 'self' and isinstance(x.ctx, ast.Store):
                            written.add(x.attr)
            if isinstance(n, ast.Call) and isinstance(n.func, ast.Name) and n.func.id == 'setattr' and n.args and \
                    isinstance(n.args[0], ast.Name) and n.args[0].id == 'self':
                written.add('<setattr>')
    sel = None
    for name, fi in comp.methods.items():
        ann = fi.node.args.args[1].annotation if len(fi.node.args.args) > 1 else None
        if ann is not None and ast.unparse(ann) == 'ast.Select' and any('register' in ast.unparse(d) for d in fi.node.decorator_list):
            sel = fi
    if sel is None:
        raise AnalysisError('anchor vanished: the _compile handler registered for ast.Select')
    if '<setattr>' in written:
        raise AnalysisError('the compiler writes its own attributes through setattr(): not understood')
    if not written:
        res.ok({'compiler_state_written_during_compilation': []})
        return res
    NODE = Sym('SELECT_NODE')
    inner = [m for n, m in comp.methods.items() if n not in entry_only and m is not sel]
    for attr in sorted(written):
        construct = f'{comp.fq}.{attr}'
        BEFORE, CLOBBERED = Sym(f'{attr.upper()}_OF_THE_ENCLOSING_SELECT'), Sym(f'{attr.upper()}_OF_THE_NESTED_SELECT')
        ok = True
        for from_kind in ('none', 'table', 'subquery', 'expression'):
            for fails in (False, True):
                def on_attr(base, a, ex):
                    if base == SELF and a == attr:
                        return BEFORE
                    if base == NODE and a == 'from_clause':
                        return None if from_kind == 'none' else Sym('FROM_' + from_kind)
                    return NotImplemented

                def on_isinstance(v, c, ex):
                    cn = gname(c)
                    if isinstance(v, Sym) and v.name.startswith('FROM_'):
                        return cn.endswith({'table': 'Table', 'subquery': 'Select', 'expression': 'From'}[v.name[5:]])
                    return NotImplemented

                def on_call(fname, fval, recv, args, kwargs, ex, node):
                    f = str(fname).split('.')[-1]
                    if recv == SELF and any(f == m.name for m in inner):
                        # compiling the body of this SELECT: nested SELECTs and the FROM clause overwrite the attribute
                        ex.heap[_attr(SELF, attr)] = CLOBBERED
                        ex.events.append(('clobber', attr))
                        if fails:
                            raise Raise('CompilationError', ())
                        return Sym('COMPILED')
                    return NotImplemented
                for p in Engine(P, on_attr=on_attr, on_isinstance=on_isinstance, on_call=on_call).paths(sel, {'self': SELF, sel.params[1]: NODE}):
                    if not any(e[0] == 'clobber' for e in p.events):
                        continue
                    after = p.heap.get(_attr(SELF, attr), BEFORE)
                    if after != BEFORE:
                        ok = False
                        res.fail(construct, f'reentrant:{attr}', f'`self.{attr}` is overwritten while a SELECT is compiled, and SELECTs nest '
                                 f'(subqueries in expressions and in FROM). {sel.qualname} (FROM: {from_kind}; body '
                                 f'{"fails with CompilationError" if fails else "compiles"}) leaves it as `{show(after)}`: it must be saved '
                                 f'on entry and restored on every exit, or the enclosing SELECT resolves names against, and scans, the table '
                                 f'of the nested one', loc(sel))
                        break
                if not ok:
                    break
            if not ok:
                break
        if ok:
            res.ok({'attribute': f'self.{attr}', 'scope_owner': sel.qualname, 'restored_on': 'every exit, for every kind of FROM clause, '
                    'normal and exceptional'})
    return res


# ----------------------------------------------------------------------
# R-ONCEPERROW (C12, C20): running state of the row context is updated exactly once per row

MUTATORS = ('add_position', 'add_amount', 'add_inventory', 'append', 'extend', 'update', 'add', 'insert', 'pop', 'remove', 'clear',
            'setdefault', 'sort', 'reverse', '__iadd__')


def rule_onceperrow(P) -> RuleResult:
    from .. import registry, effects
    res = RuleResult('R-ONCEPERROW')
    res.exhaustive = True
    reg = registry.get(P)
    m = P.module(QE)
    ROW = Sym('row')
    RID = _attr(ROW, 'rowid')
    seen = set()
    found = 0
    for fq, cols in reg.tables.items():
        for name, c in cols.items():
            if c.kind != 'func' or c.impl.fq in seen:
                continue
            fi = c.impl
            seen.add(fi.fq)
            paths = Engine(P).paths(fi, {fi.params[0]: ROW})

            def writes(p):
                out = []
                for e in p.events:
                    if e[0] == 'call' and isinstance(e[1], str) and e[1].startswith('row.') and e[1].split('.')[-1] in MUTATORS:
                        out.append(('mutate', e[1], e[2]))
                    if e[0] in ('store', 'aug') and isinstance(e[1], T) and contains(e[1], ROW):
                        out.append((e[0], show(e[1]), e[-1]))
                return out
            if not any(w[0] == 'mutate' for p in paths for w in writes(p)):
                continue
            found += 1
            construct = f'column:{reg.table_info[fq].name}.{name}'
            n0 = len(res.findings)
            for d in fi.node.decorator_list:
                e = d.func if isinstance(d, ast.Call) else d
                if fi.module.dotted(e) in effects.MEMO_DECORATORS:
                    res.fail(construct, 'onceperrow:memo',
                             f'{name} updates the running state of its row context and relies on `@{ast.unparse(d)}` to do so only once per '
                             f'row: the cache is shared by every scan in the process, so another evaluation of the column between two '
                             f'references in one row (a subquery, another thread) evicts the entry and the row is counted twice', loc(fi))
            guards = set()
            for p in paths:
                ws = writes(p)
                muts = [w for w in ws if w[0] == 'mutate']
                # the decision that tells a first evaluation for this row from a repeated one: <row.G> compared with row.rowid
                first = None
                for t, outcome in p.decisions:
                    if isinstance(t, T) and t.op == 'cmp' and t.args[0] in ('==', '!=') and RID in (t.args[1], t.args[2]):
                        other = t.args[2] if t.args[1] == RID else t.args[1]
                        if isinstance(other, T) and other.op == 'attr' and other.args[0] == ROW:
                            guards.add(other.args[1])
                            first = (outcome == (t.args[0] == '!='))
                            guard_attr = other
                if first is None:
                    if muts:
                        res.fail(construct, 'onceperrow:unguarded',
                                 f'{name} updates the running state of its row context (`{muts[0][1]}`) on an evaluation that is not guarded by a '
                                 f'comparison of a marker on the row context with row.rowid: referenced twice in one row (or by a posting '
                                 f'that compares equal to the previous one) it counts the row twice or not at all', loc(fi))
                        break
                    continue
                if first:
                    if len(muts) != 1:
                        res.fail(construct, f'onceperrow:guard:{guard_attr.args[1]}', f'{name}: on the first evaluation for a row the running '
                                 f'state must be updated exactly once; it is updated {len(muts)} times', loc(fi))
                        break
                    if p.heap.get(guard_attr) != RID:
                        res.fail(construct, f'onceperrow:mark:{guard_attr.args[1]}', f'{name} updates the running state but does not record the '
                                 f'row id in row.{guard_attr.args[1]} (it holds `{show(p.heap.get(guard_attr))}`): the next reference in the same '
                                 f'row updates it again', loc(fi))
                        break
                elif muts:
                    res.fail(construct, f'onceperrow:guard:{guard_attr.args[1]}', f'{name}: with row.{guard_attr.args[1]} equal to the current '
                             f'row id (the row was already accounted for) the running state is updated again', loc(fi))
                    break
                v = p.value
                if p.outcome == 'return' and isinstance(v, T) and v.op == 'attr' and contains(v, ROW):
                    res.fail(construct, 'onceperrow:alias', f'{name} returns the running object itself (`{show(v)}`): it is stored in result '
                             f'rows and keeps changing as the scan goes on; a copy must be returned', loc(fi))
                    break
            row = m.classes.get('Row')
            for ga in sorted(guards):
                if row is not None and ga not in row.attrs and f'self.{ga}' not in ast.unparse(row.node):
                    res.fail(construct, f'onceperrow:decl:{ga}', f'row.{ga} is never initialised on the row context', loc(fi))
            if len(res.findings) == n0:
                res.ok({'column': name, 'guard': sorted(guards), 'paths': len(paths), 'returns': 'copy'})
    if found == 0:
        raise AnalysisError('anchor vanished: no column accessor updates its row context (the running balance)')
    # every row gets its own row id (decided on the row generators' paths)
    from .sx_tables import rule_rowgen
    rg = rule_rowgen(P)
    rowid = [f for f in rg.findings if f.detail == 'rowgen:rowid']
    for f in rowid:
        res.fail(f.construct, 'onceperrow:rowid', f.message + ' (two rows would share an id and the second would not be added to the balance)', f.where)
    if not rowid:
        res.ok({'generators': ['EntriesTable.__iter__', 'PostingsTable.__iter__'], 'rowid': 'bumped once per yielded row'})
    return res


# ----------------------------------------------------------------------
# R-DEFAULTCLOSE (C13, C19): .run NAME closes the ledger at the date of the query directive unless the query says otherwise

SH = 'beanquery.shell'


def rule_defaultclose(P) -> RuleResult:
    res = RuleResult('R-DEFAULTCLOSE')
    res.exhaustive = True
    sh = P.module(SH)
    shell = sh.classes.get('BQLShell')
    parse = shell.methods.get('parse') if shell else None
    if parse is None:
        raise AnalysisError('anchor vanished: BQLShell.parse')
    SHELL, LINE, DEF, STMT = Sym('SHELL'), Sym('LINE'), Sym('DEFAULT_CLOSE_DATE'), Sym('STATEMENT')
    FROM = _attr(STMT, 'from_clause')
    dparams = [p for p in parse.params[2:]]
    n = 0
    ok = True
    for is_select in (True, False):
        for is_from in (True, False):
            for close in (None, False, True, Sym('CLOSE_DATE')):
                n += 1

                def on_attr(base, attr, ex):
                    if base == FROM and attr == 'close':
                        return close
                    return NotImplemented

                def on_call(fn, fv, rc, a, k, ex, nd):
                    if str(fn).endswith('.parse') and a == (LINE,):
                        return STMT
                    return NotImplemented

                def on_isinstance(v, c, ex):
                    cn = gname(c)
                    if v == STMT:
                        return is_select if cn.endswith('Select') else False
                    if v == FROM:
                        return is_from if cn.endswith('From') else False
                    if cn.endswith('date'):
                        return isinstance(v, Sym) and v.name == 'CLOSE_DATE'
                    return NotImplemented
                env = {'self': SHELL, parse.params[1]: LINE}
                if dparams:
                    env[dparams[0]] = DEF
                for p in Engine(P, on_attr=on_attr, on_call=on_call, on_isinstance=on_isinstance).paths(parse, env):
                    stores = [e for e in p.events if e[0] == 'store']
                    want = is_select and is_from and not close      # CLOSE absent: None (or False); bare CLOSE is True, dated CLOSE a date
                    did = [e for e in stores if e[1] == _attr(FROM, 'close')]
                    other = [e for e in stores if e[1] != _attr(FROM, 'close')]
                    case = f'statement {"is" if is_select else "is not"} a SELECT, FROM clause {"is" if is_from else "is not"} a FROM expression, ' \
                           f'CLOSE {"absent" if not close else "without a date" if close is True else "with a date"}'
                    key = f'defaultclose:{int(is_select)}{int(is_from)}{"set" if close else "unset"}'
                    if p.outcome != 'return' or p.value != STMT:
                        ok = False
                        res.fail(parse.fq, key, f'{case}: parse() must return the parsed statement; {p.outcome} `{show(p.value)[:60]}`', loc(parse))
                        continue
                    if other:
                        ok = False
                        res.fail(parse.fq, 'defaultclose:state', f'{case}: parse() writes `{show(other[0][1])}`: the default close date is a per-call '
                                 f'value; state kept in the shell survives the statement it was meant for', loc(parse))
                        continue
                    if bool(did) != want:
                        ok = False
                        res.fail(parse.fq, key, f'{case}: default close date {"applied" if did else "not applied"}; it must be applied exactly when a '
                                 f'SELECT has a FROM expression without CLOSE', loc(parse))
                        continue
                    if did and did[0][2] != DEF:
                        ok = False
                        res.fail(parse.fq, 'defaultclose:state', f'{case}: the default close date is taken from `{show(did[0][2])}`, not from an '
                                 f'argument of this call: kept in the shell it survives the statement it was meant for and silently closes a '
                                 f'later, unrelated statement', loc(parse))
    if ok:
        res.ok({'function': parse.fq, 'cases': n})
    # .run NAME / .run * execute the query text with the date of its directive as the default, and execute() hands it to parse()
    run = shell.methods.get('do_run')
    if run is None:
        raise AnalysisError('anchor vanished: BQLShell.do_run')
    QUERY = Sym('QUERY_DIRECTIVE')
    executed = []

    def on_call_run(fn, fv, rc, a, k, ex, nd):
        f = str(fn)
        if f.endswith('.execute') and rc == SHELL:
            executed.append((a, dict(k)))
            return None
        if f == 'shlex.split':
            import shlex as _shlex
            return SList(_shlex.split(a[0])) if a and isinstance(a[0], str) else SList(['NAME'])
        if f in ('print', 'sorted') or f.endswith('.error') or f.endswith('.join'):
            return a[0] if f == 'sorted' and a else None
        return NotImplemented

    def on_attr_run(base, attr, ex):
        # the registry of named queries; the name of a query directive is free text: `.run *` runs every query whatever its name
        # looks like, `.run NAME` takes one shell word
        if base == SHELL and attr == 'queries':
            return SList([('NAME', QUERY), ('expenses to date', QUERY)], kind='dict')
        return NotImplemented
    good = True
    # (a statement typed at the prompt ends with a semicolon, blanks before it allowed: `.run NAME ;` is `.run NAME`)
    for arg in ('NAME', '*', 'NAME;', 'NAME ;', '*;', '* ;', '"expenses to date" ;', ';', ' ; '):
        executed.clear()
        Engine(P, on_call=on_call_run, on_attr=on_attr_run).paths(run, {'self': SHELL, run.params[1]: arg})
        bare = arg.strip('; ')
        n_want = 0 if not bare else 2 if bare == '*' else 1
        if len(executed) != n_want:
            good = False
            res.fail(f'{shell.fq}.do_run', 'defaultclose:run', f'.run {arg} must execute {"no query (it lists them)" if not bare else "the named query" if bare != "*" else "every named query, "
                     "whatever its name (a name is free text: `expenses to date`)"}; it executes {len(executed)} of them', loc(run))
            continue
        if not bare:
            continue
        if not executed or any(a != (_attr(QUERY, 'query_string'),) or kw.get('default_close_date', None) != _attr(QUERY, 'date') or len(kw) != 1
                               for a, kw in executed):
            good = False
            res.fail(f'{shell.fq}.do_run', 'defaultclose:run', f'.run {arg} must execute the text of the named query with the date of its query '
                     f'directive as default close date (execute(query.query_string, default_close_date=query.date)); got '
                     f'{[(tuple(map(show, a)), {k: show(v) for k, v in kw.items()}) for a, kw in executed] or "no execution"}', loc(run))
    # execute(query, **kwargs) -> parse(query, **kwargs)
    exe = P.find_method(shell, 'execute')
    KW = Sym('KWARGS')
    parsed = []

    def on_call_exe(fn, fv, rc, a, k, ex, nd):
        f = str(fn)
        if f.endswith('.parse') and rc == SHELL:
            parsed.append((a, k))
            return STMT
        if f == 'getattr' or f == 'type':
            return Sym('HANDLER') if f == 'getattr' else Sym('TYPE')
        return NotImplemented
    env = {'self': SHELL, exe.params[1]: LINE}
    if exe.node.args.kwarg:
        env[exe.node.args.kwarg.arg] = KW
    Engine(P, on_call=on_call_exe).paths(exe, env)
    flows = bool(parsed) and all(a == (LINE,) and any(isinstance(v, T) and v.op == 'star' or v == KW or k is None for k, v in kw) or
                                 any(KW in (x.args if isinstance(x, T) else ()) or x == KW for x in a) for a, kw in parsed)
    if not parsed:
        good = False
        res.fail(exe.fq, 'defaultclose:run', 'execute() does not parse its statement through self.parse()', loc(exe))
    elif not flows:
        good = False
        res.fail(exe.fq, 'defaultclose:run', f'execute() must hand its keyword arguments (the default close date) on to parse(); it calls parse'
                 f'({", ".join(map(show, parsed[0][0]))}, {", ".join(f"{k}={show(v)}" for k, v in parsed[0][1])})', loc(exe))
    if good:
        res.ok({'function': run.fq, 'passes': 'default_close_date=query.date', 'through': 'execute(**kwargs) -> parse(**kwargs)'})
    return res


# ----------------------------------------------------------------------
# R-QUERYFROZEN (C08): the enclosing SELECT uses the compiled subquery as it was compiled

def rule_queryfrozen(P) -> RuleResult:
    """FROM (q) runs over the rows q produces by itself: while the enclosing SELECT is compiled nothing is stored into the compiled
    subquery or its table (its ordering, limit, targets stay what q's own compilation made them)."""
    res = RuleResult('R-QUERYFROZEN')
    res.exhaustive = True
    comp = P.cls(CO, 'Compiler')
    sel = comp.methods.get('_compile_select')
    if sel is None:
        raise AnalysisError('anchor vanished: Compiler._compile_select')
    SEL, SUBT, SUBQ = Sym('SELECT_NODE'), Sym('SUBQUERY_TABLE'), Sym('COMPILED_SUBQUERY')
    T1, T2 = Sym('TARGET_key'), Sym('TARGET_aggregate')
    n = 0
    for ordered in (True, False):
        for grouped in (True, False):
            def on_attr(base, attr, ex):
                if base == SELF and attr == 'table':
                    return SUBT
                if base == SUBT and attr == 'subquery':
                    return SUBQ
                if base == T1 and attr == 'is_aggregate':
                    return False
                if base == T2 and attr == 'is_aggregate':
                    return grouped
                if base in (T1, T2) and attr == 'name':
                    return 'k' if base == T1 else 'v'
                return NotImplemented

            def on_isinstance(v, c, ex):
                if v == SUBT:
                    return gname(c).split('.')[-1] in ('SubqueryTable', 'Table')
                if v == SUBQ:
                    return gname(c).split('.')[-1] == 'EvalQuery'
                return NotImplemented

            def on_call(fn, fv, rc, a, k, ex, nd):
                f = str(fn).split('.')[-1]
                if f == '_compile_from':
                    return None
                if f == '_compile_targets':
                    return SList([T1, T2])
                if f == '_compile':
                    return Sym('C_WHERE')
                if f == 'is_aggregate':
                    return False
                if f == '_compile_group_by':
                    return T('tuple', (SList(), SList([0]) if grouped else None, None))
                if f == '_compile_order_by':
                    return T('tuple', (SList(), SList([T('tuple', (0, Sym('ASC')))]) if ordered else None))
                if f == '_compile_pivot_by':
                    return None
                if f in ('EvalQuery', 'EvalPivot'):
                    return T('new', (f, a))
                if f in ('format', 'join'):
                    return 'x'
                return NotImplemented
            n0, f0 = n, len(res.findings)
            for p in Engine(P, on_attr=on_attr, on_call=on_call, on_isinstance=on_isinstance).paths(sel, {'self': SELF, sel.params[1]: SEL}):
                n += 1
                for e in p.events:
                    if e[0] in ('store', 'aug', 'mutate') and isinstance(e[1], (T, Sym)) and e[1] != _attr(SELF, 'table') and \
                            (contains(e[1], SUBQ) or contains(e[1], SUBT)):
                        res.fail(sel.fq, 'queryfrozen:' + (e[1].args[1] if isinstance(e[1], T) and e[1].op == 'attr' else 'write'),
                                 f'compiling a SELECT over FROM (q) stores into the compiled subquery: `{show(e[1])} = {show(e[2])[:40]}` '
                                 f'({"ordered" if ordered else "unordered"}, {"aggregate" if grouped else "plain"} outer query). The rows and '
                                 f'their order are those q produces by itself; an outer ORDER BY is a stable sort over exactly that order',
                                 loc(sel))
                        break
            if n == n0:
                raise AnalysisError(f'{sel.fq}: no path interpreted')
            if len(res.findings) == f0:
                res.ok({'function': sel.fq, 'outer_ordered': ordered, 'outer_aggregate': grouped, 'paths': n - n0, 'stores_into_subquery': 0})
    return res


# ----------------------------------------------------------------------
# R-WALK (C05, C08, C09): every node of a statement is visited - so every placeholder is found, whatever clause or subquery holds it

def rule_walk(P) -> RuleResult:
    """parser.ast.walk on terms over a small abstract tree (nodes in plain fields, in a list, in a list inside a list, below another
    node; fields holding None, a string and the parse position): every node is yielded exactly once.  Compiler.compile collects the
    placeholders from this walk: a node that is not visited is a placeholder that is neither counted nor checked against the
    parameters (and then fails, or is bound wrongly, when it is compiled)."""
    from ..symex import Sym, T, SList, Engine, show, gname
    res = RuleResult('R-WALK')
    res.exhaustive = True
    m = P.module('beanquery.parser.ast')
    w = m.toplevel_funcs.get('walk')
    nd = m.classes.get('Node')
    if not w or nd is None or 'walk' not in nd.methods:
        raise AnalysisError('anchor vanished: parser.ast.walk / Node.walk')
    fi = w[-1]
    ROOT, C1, C2, C3, C4, C5 = (Sym(n) for n in ('ROOT', 'CHILD_IN_FIELD', 'CHILD_IN_LIST', 'CHILD_IN_NESTED_LIST', 'GRANDCHILD', 'LAST_FIELD_CHILD'))
    PI = Sym('PARSEINFO')
    NODES = {ROOT: [('first', C1), ('items', SList([C2, SList([C3])])), ('absent', None), ('text_', 'text'), ('parseinfo', PI), ('last', C5)],
             C1: [('operand', C4), ('parseinfo', PI)], C2: [('parseinfo', PI)], C3: [], C4: [('value', 3)], C5: []}

    def on_call(fn, fv, rc, a, k, ex, node_):
        f = str(fn)
        if (f.endswith('dataclasses.fields') or f == 'fields') and a and a[0] in NODES:
            return SList([T('field', (a[0], name)) for name, _ in NODES[a[0]]])
        if f == 'getattr' and len(a) >= 2 and a[0] in NODES and isinstance(a[1], str):
            d = dict(NODES[a[0]])
            return d[a[1]] if a[1] in d else (a[2] if len(a) > 2 else NotImplemented)
        return NotImplemented

    def on_attr(base, attr, ex):
        if isinstance(base, T) and base.op == 'field':
            if attr == 'name':
                return base.args[1]
            if attr == 'repr':
                return base.args[1] != 'parseinfo'
            if attr == 'compare':
                return base.args[1] != 'parseinfo'
        if base in NODES and attr in dict(NODES[base]):
            return dict(NODES[base])[attr]
        return NotImplemented

    def on_isinstance(v, c, ex):
        names = [gname(x).split('.')[-1] for x in (c.args if isinstance(c, T) and c.op == 'tuple' else [c])]
        return ('Node' in names and v in NODES) or (bool({'list', 'tuple', 'Sequence'} & set(names)) and isinstance(v, SList))
    want = sorted(map(show, NODES))
    n = 0
    for p in Engine(P, on_call=on_call, on_attr=on_attr, on_isinstance=on_isinstance, inline_generators='lazy', max_depth=16).paths(fi, {fi.params[0]: ROOT}):
        n += 1
        ys = [e[1] for e in p.events if e[0] == 'yield']
        if p.outcome == 'return' and p.value is not None and not ys:
            v = p.value
            ys = list(v.items) if isinstance(v, SList) and not v.opaque_tail else [v]
        got = sorted(map(show, ys))
        if p.decisions or got != want:
            missing = sorted(set(want) - set(got))
            twice = sorted({x for x in got if got.count(x) > 1})
            res.fail(fi.fq, 'walk:coverage', f'walk(statement) must yield every node of the tree exactly once; '
                     + (f'not visited: {missing}' if missing else f'visited more than once: {twice}' if twice else f'it yields {got}')
                     + ': a placeholder there is not counted when the parameters are checked', loc(fi))
        else:
            res.ok({'function': fi.fq, 'visited': want, 'each': 'once'})
    if n == 0:
        raise AnalysisError(f'{fi.fq}: no path on terms')
    # the method is the function
    mw = nd.methods['walk']
    SELF = Sym('NODE')
    for p in Engine(P, inline_generators='lazy', max_depth=0).paths(mw, {'self': SELF}):
        v = p.value
        ok = p.outcome == 'return' and isinstance(v, T) and ((v.op == 'genobj' and v.args[0] is fi and tuple(v.args[2]) == (SELF,)) or
                                                             (v.op == 'call' and str(v.args[0]).split('.')[-1] == 'walk' and tuple(v.args[1]) == (SELF,)))
        if ok:
            res.ok({'method': mw.fq, 'is': 'walk(self)'})
        else:
            res.fail(mw.fq, 'walk:method', f'Node.walk() is walk(self); found `{show(v)[:80]}`', loc(mw))
    return res


# ----------------------------------------------------------------------
# R-COMPILEFN (C09, C20): every compilation has a compiler of its own

def rule_compilefn(P) -> RuleResult:
    """compiler.compile(context, statement, parameters) on terms: a Compiler made in this call for this context compiles this
    statement with these parameters; Compiler.__init__ keeps the context and starts name resolution at the connection's postings table.
    The compiler object holds the per-statement state (current table, parameters, placeholder numbering): one per call means that
    neither an earlier statement nor a concurrent one can be seen in it."""
    from ..symex import Sym, T, Engine, show
    res = RuleResult('R-COMPILEFN')
    res.exhaustive = True
    m = P.module('beanquery.compiler')
    cf = m.toplevel_funcs.get('compile')
    comp = m.classes.get('Compiler')
    if not cf or comp is None or '__init__' not in comp.methods:
        raise AnalysisError('anchor vanished: compiler.compile / Compiler.__init__')
    fi = cf[-1]
    CTX, ST, PR = Sym('CONTEXT'), Sym('STATEMENT'), Sym('PARAMETERS')

    def on_call(fn, fv, rc, a, k, ex, nd):
        f = str(fn)
        if f.split('.')[-1] == 'Compiler':
            return T('new', ('Compiler', tuple(a), tuple(k)))
        if f.split('.')[-1] == 'compile' and isinstance(rc, T) and rc.op == 'new':
            return T('compiled-by', (rc, tuple(a), tuple(k)))
        return NotImplemented
    n = 0
    for p in Engine(P, on_call=on_call, max_depth=0).paths(fi, {fi.params[0]: CTX, fi.params[1]: ST, fi.params[2]: PR}):
        n += 1
        v = p.value
        good = p.outcome == 'return' and not p.decisions and isinstance(v, T) and v.op == 'compiled-by' and \
            v.args[0] == T('new', ('Compiler', (CTX,), ())) and list(v.args[1]) + [x for _, x in v.args[2]] == [ST, PR]
        if good:
            res.ok({'function': fi.fq, 'is': 'Compiler(context).compile(statement, parameters)', 'compiler': 'made in the call'})
        else:
            res.fail(fi.fq, 'compilefn:compiler', f'compile(context, statement, parameters) must compile with a Compiler made in this call for this '
                     f'context: Compiler(context).compile(statement, parameters); found `{show(v)[:120]}`', loc(fi))
    if n == 0:
        raise AnalysisError(f'{fi.fq}: no path on terms')
    init = comp.methods['__init__']
    SELF = Sym('COMPILER')
    for p in Engine(P, max_depth=0).paths(init, {'self': SELF, init.params[1]: CTX}):
        ctx = p.heap.get(T('attr', (SELF, 'context')))
        tb = p.heap.get(T('attr', (SELF, 'table')))
        want_tb = (T('call', ('CONTEXT.tables.get', ('postings',), ())), T('item', (T('attr', (CTX, 'tables')), 'postings')))
        if p.decisions or ctx != CTX or tb not in want_tb:
            res.fail(init.fq, 'compilefn:init', f'a new compiler keeps the connection it compiles for and resolves names in its `postings` table '
                     f'until a FROM clause says otherwise; found context=`{show(ctx)[:40]}`, table=`{show(tb)[:60]}`', loc(init))
        else:
            res.ok({'constructor': init.fq, 'context': 'kept', 'default_table': "context.tables.get('postings')"})
    return res
