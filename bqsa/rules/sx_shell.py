"""C19 on the term interpreter: the settings object as a typed key-value store (setstr / getstr / the per-type parsers)."""
from __future__ import annotations

import ast

from ..symex import Sym, T, SList, Engine, Raise, show, contains
from ..loader import AnalysisError, loc

SH = 'beanquery.shell'
SETTINGS = Sym('SETTINGS')
VALUE = Sym('VALUE')


def _settings(P):
    st = P.module(SH).classes.get('Settings')
    if st is None:
        raise AnalysisError('anchor vanished: shell.Settings')
    fields = {}
    for s in st.node.body:
        if isinstance(s, ast.AnnAssign) and isinstance(s.target, ast.Name):
            fields[s.target.id] = ast.unparse(s.annotation)
    if len(fields) < 8:
        raise AnalysisError('Settings dataclass fields not found')
    return st, fields


_SAMPLES = {'bool': (False, True), 'str': ('text',), 'int': (0,)}


def _typename_hooks(on_attr=None, on_call=None):
    """type(<concrete value>) is the class of that value: a term carrying the class name, readable through __name__."""
    def attr(base, a, ex):
        if isinstance(base, T) and base.op == 'pytype' and a == '__name__':
            return base.args[0]
        return on_attr(base, a, ex) if on_attr else NotImplemented

    def call(fname, fval, recv, args, kwargs, ex, node):
        if fname == 'type' and len(args) == 1 and isinstance(args[0], (bool, int, str)) and not kwargs:
            return T('pytype', (type(args[0]).__name__,))
        return on_call(fname, fval, recv, args, kwargs, ex, node) if on_call else NotImplemented
    return attr, call


def setstr_cases(P, res):
    """Settings.setstr(name, value), for every setting and every value its type can hold: the value goes through the parser of the
    setting (its own `_parse_<name>`, else the `_parse_<type>` of its type, else the type itself); when the parser accepts, exactly
    that setting is stored with exactly the parsed value; when it rejects, nothing is stored."""
    st, fields = _settings(P)
    ss = st.methods.get('setstr')
    if ss is None:
        raise AnalysisError('anchor vanished: Settings.setstr')
    name_p, value_p = ss.params[1], ss.params[2]
    for field, typ in fields.items():
        if typ not in _SAMPLES:
            raise AnalysisError(f'Settings.{field}: no sample values for type {typ}')
        want_parser = f'_parse_{field}' if f'_parse_{field}' in st.methods else f'_parse_{typ}' if f'_parse_{typ}' in st.methods else typ
        for current in _SAMPLES[typ]:
            def on_attr(base, a, ex, _cur=current, _f=field):
                if base == SETTINGS and a == _f:
                    return _cur
                if base == SETTINGS and a in fields:
                    return Sym('OTHER_' + a)
                return NotImplemented

            def parse(parser, args, ex):
                if len(args) != 1:
                    raise AnalysisError(f'Settings.setstr: parser {parser} called with {len(args)} arguments')
                if not ex.truth(T('accepts', (parser, args[0]))):
                    raise Raise('ValueError', (T('fstr', ('invalid ', args[0])),))
                return T('parsed', (parser, args[0]))

            def on_call(fname, fval, recv, args, kwargs, ex, node):
                if fname == 'getattr' and len(args) >= 2 and args[0] == SETTINGS:
                    if not isinstance(args[1], str):
                        raise AnalysisError(f'Settings.setstr: attribute name `{show(args[1])[:60]}` is not concrete on terms')
                    if args[1] in st.methods:
                        return T('method', (args[1],))
                    if args[1] in fields:
                        return on_attr(SETTINGS, args[1], ex)
                    if len(args) == 3:
                        return args[2]
                    raise Raise('AttributeError', (args[1],))
                if fname == 'hasattr' and len(args) == 2 and args[0] == SETTINGS and isinstance(args[1], str):
                    return args[1] in st.methods or args[1] in fields
                if isinstance(fval, T) and fval.op == 'method':
                    return parse(fval.args[0], args, ex)
                if isinstance(fval, T) and fval.op == 'pytype':
                    return parse(fval.args[0], args, ex)
                if isinstance(fval, T) and fval.op == 'attr' and fval.args[0] == SETTINGS and str(fval.args[1]).startswith('_parse_'):
                    if fval.args[1] not in st.methods:
                        raise Raise('AttributeError', (fval.args[1],))
                    return parse(fval.args[1], args, ex)
                return NotImplemented
            a2, c2 = _typename_hooks(on_attr, on_call)
            good = True
            for p in Engine(P, on_attr=a2, on_call=c2).paths(ss, {'self': SETTINGS, name_p: field, value_p: VALUE}):
                stores = [(e[1], e[2]) for e in p.events if e[0] in ('store', 'aug', 'mutate') and isinstance(e[1], T)
                          and e[1].op == 'attr' and e[1].args[0] == SETTINGS]
                accepted = [t for t, b in p.decisions if isinstance(t, T) and t.op == 'accepts']
                verdicts = [b for t, b in p.decisions if isinstance(t, T) and t.op == 'accepts']
                other = [t for t, b in p.decisions if not (isinstance(t, T) and t.op == 'accepts')]
                if other:
                    raise AnalysisError(f'Settings.setstr({field}): undecided test `{show(other[0])[:60]}`')
                construct = f'{ss.fq}:{field}'
                if p.outcome == 'raise':
                    if stores:
                        good = False
                        res.fail(construct, 'settings:atomic', f'.set {field} with an invalid value must change nothing: '
                                 f'`{show(stores[0][0])}` is stored before the value is rejected', loc(ss))
                    elif p.value[0] != 'ValueError' or verdicts != [False]:
                        good = False
                        res.fail(construct, 'settings:lookup', f'.set {field} VALUE (current value {current!r}) fails with {p.value[0]} '
                                 f'{[show(x)[:40] for x in p.value[1]]} instead of parsing the value', loc(ss))
                    continue
                want = T('parsed', (want_parser, VALUE))
                if [t.args for t in accepted] != [(want_parser, VALUE)]:
                    good = False
                    got = accepted[0].args[0] if accepted else 'no parser'
                    res.fail(construct, 'settings:lookup', f'the value of setting `{field}` ({typ}, current value {current!r}) must go through '
                             f'{want_parser}: the parser is looked up by setting name, then by type, then the type itself; it goes '
                             f'through {got}', loc(ss))
                elif stores != [(T('attr', (SETTINGS, field)), want)]:
                    good = False
                    res.fail(construct, 'settings:atomic', f'.set {field} VALUE must store exactly that setting once, with the parsed value; '
                             f'stores {[(show(k), show(v)[:50]) for k, v in stores]}', loc(ss))
            if good:
                res.ok({'method': ss.fq, 'setting': field, 'current': repr(current), 'parser': want_parser,
                        'order': 'parse, then one store; nothing stored when rejected'})


def bool_parser_cases(P, res):
    """Settings._parse_bool: every result is a bool (so the setting keeps its type), the spellings `.set` itself echoes parse back to
    the value they stand for, and everything that is not accepted is rejected with ValueError."""
    st, fields = _settings(P)
    pf = st.methods.get('_parse_bool')
    if pf is None:
        if any(t == 'bool' for t in fields.values()):
            res.fail(f'{st.fq}._parse_bool', 'settings:parser:bool', 'boolean settings have no parser that rejects invalid values with ValueError')
        return
    vp = pf.params[-1]
    ok = True
    n = 0
    for p in Engine(P).paths(pf, {'self': SETTINGS, vp: VALUE}):
        n += 1
        if p.outcome == 'raise':
            if p.value[0] != 'ValueError':
                ok = False
                res.fail(pf.fq, 'settings:parser:bool', f'an invalid boolean must be rejected with ValueError; raises {p.value[0]}', loc(pf))
            continue
        v = p.value
        is_bool = v is True or v is False
        if v == VALUE:
            # the value itself: only after it was found to be one of the two booleans
            for t, b in p.decisions:
                if isinstance(t, T) and t.op == 'cmp' and t.args[0] == 'in' and t.args[1] == VALUE and b and isinstance(t.args[2], SList) \
                        and not t.args[2].opaque_tail and all(x is True or x is False for x in t.args[2].items):
                    is_bool = True
                if isinstance(t, T) and t.op == 'call' and t.args[0] == 'isinstance' and b and t.args[1][0] == VALUE and \
                        show(t.args[1][1]) in ("global('bool')", 'bool'):
                    is_bool = True
        if not is_bool:
            ok = False
            res.fail(pf.fq, 'settings:parser-type:_parse_bool', f'_parse_bool must return a bool; it can return `{show(v)[:60]}`: the setting '
                     f'changes type, is echoed differently and can no longer be set with the usual spellings', loc(pf))
    vectors = [('true', True), ('false', False), (True, True), (False, False), ('definitely-not-a-boolean', ValueError)]
    for inp, want in vectors:
        for p in Engine(P).paths(pf, {'self': SETTINGS, vp: inp}):
            got = ValueError if p.outcome == 'raise' and p.value[0] == 'ValueError' else p.value if p.outcome == 'return' else p.outcome
            if p.decisions:
                raise AnalysisError(f'{pf.fq}: undecided on the concrete input {inp!r}: {show(p.decisions[0][0])[:60]}')
            if got is not want:
                ok = False
                res.fail(pf.fq, 'settings:parser:bool', f'_parse_bool({inp!r}) must be {"rejected with ValueError" if want is ValueError else want}'
                         f'; it gives {got!r}', loc(pf))
    if ok and n:
        res.ok({'parser': pf.fq, 'paths': n, 'vectors': len(vectors), 'returns': 'bool'})


def getstr_cases(P, res):
    """Settings.getstr: the echo of a boolean setting is the spelling its parser reads back to the same value."""
    st, fields = _settings(P)
    gs = st.methods.get('getstr')
    pf = st.methods.get('_parse_bool')
    if gs is None:
        raise AnalysisError('anchor vanished: Settings.getstr')
    if pf is None:
        return
    ok = True
    for current in (True, False):
        def on_attr(base, a, ex, _c=current):
            if base == SETTINGS and a == 'boxed':
                return _c
            return NotImplemented

        def on_call(fname, fval, recv, args, kwargs, ex, node, _c=current):
            if fname == 'getattr' and len(args) == 2 and args[0] == SETTINGS and args[1] == 'boxed':
                return _c
            if fname == 'isinstance' and len(args) == 2 and isinstance(args[0], bool):
                tn = show(args[1])
                if tn in ("global('bool')", "global('int')"):
                    return True
                if tn in ("global('str')",):
                    return False
            return NotImplemented
        for p in Engine(P, on_attr=on_attr, on_call=on_call).paths(gs, {'self': SETTINGS, gs.params[1]: 'boxed'}):
            if p.decisions or p.outcome != 'return' or not isinstance(p.value, str):
                raise AnalysisError(f'{gs.fq}: echo of a boolean not concrete on terms: {p.outcome} {show(p.value)[:60]}')
            back = [q for q in Engine(P).paths(pf, {'self': SETTINGS, pf.params[-1]: p.value})]
            if len(back) != 1 or back[0].outcome != 'return' or back[0].value is not current:
                ok = False
                res.fail(gs.fq, 'settings:echo', f'.set echoes the boolean {current} as {p.value!r}, which .set does not read back as {current}',
                         loc(gs))
    # a string setting is echoed as its Python literal (repr): quotes and backslashes inside the value are escaped, so what .set shows
    # is the string it holds and nothing else
    SVAL = Sym('STRING_VALUE')

    def on_attr_s(base, a, ex):
        if base == SETTINGS and a == 'nullvalue':
            return SVAL
        return NotImplemented

    def on_call_s(fname, fval, recv, args, kwargs, ex, node):
        if fname == 'getattr' and len(args) >= 2 and args[0] == SETTINGS and args[1] == 'nullvalue':
            return SVAL
        if fname == 'isinstance' and len(args) == 2 and args[0] == SVAL:
            return show(args[1]) == "global('str')"
        return NotImplemented
    for p in Engine(P, on_attr=on_attr_s, on_call=on_call_s).paths(gs, {'self': SETTINGS, gs.params[1]: 'nullvalue'}):
        if p.decisions or p.outcome != 'return' or p.value != T('call', ('repr', (SVAL,), ())):
            ok = False
            res.fail(gs.fq, 'settings:echo-string', f'.set echoes a string setting as its literal, repr(value); it gives '
                     f'`{show(p.value)[:60] if p.outcome == "return" else p.outcome}`: a value with a quote or a backslash in it is shown as '
                     f'a different (or unbalanced) string', loc(gs))
    if ok:
        res.ok({'method': gs.fq, 'round_trip': 'getstr(bool) parses back to the same value', 'string': 'repr(value)'})


# ----------------------------------------------------------------------
# R-OPTUSED (C19): the command line options reach the shell and act there

def _bind_call(init, args, kwargs):
    """Positional and keyword arguments of a constructor call -> {parameter of __init__: value} (defaults left out)."""
    ip = init.params[1:]
    bound = {}
    for i, a in enumerate(args):
        if i < len(ip):
            bound[ip[i]] = a
    for k, v in kwargs:
        bound[k] = v
    return bound


def rule_optused(P):
    from ..report import RuleResult
    res = RuleResult('R-OPTUSED')
    sh = P.module(SH)
    mains = sh.toplevel_funcs.get('main')
    if not mains:
        raise AnalysisError('anchor vanished: shell.main')
    fi = mains[-1]
    opts = [ast.unparse(d) for d in fi.node.decorator_list if 'click.option' in ast.unparse(d) or 'click.argument' in ast.unparse(d)]
    if len(opts) < 5:
        raise AnalysisError('click options of main not found')
    shell = sh.classes.get('BQLShell')
    init = shell.methods.get('__init__') if shell else None
    if init is None:
        raise AnalysisError('anchor vanished: BQLShell.__init__')
    syms = {p: Sym('OPT_' + p) for p in fi.params}
    SHELLOBJ = Sym('SHELLOBJ')
    # (1) main: every option value reaches the shell constructor under its own parameter; the query text is executed
    wires = (('format', 'format'), ('numberify', 'numberify'), ('output', 'outfile'), ('no_errors', 'no_errors'), ('filename', 'filename'))
    for has_query in (True, False):
        def oracle(t, ex, _q=has_query):
            if 'query' in syms and t == syms['query']:
                return _q
            return None

        def on_call(fname, fval, recv, args, kwargs, ex, node):
            if fname == 'BQLShell':
                ex.events.append(('construct', args, kwargs))
                return SHELLOBJ
            return NotImplemented
        bad = {}
        n = 0
        for p in Engine(P, on_call=on_call, oracle=oracle, max_depth=0).paths(fi, dict(syms)):
            n += 1
            cons = [e for e in p.events if e[0] == 'construct']
            if len(cons) != 1:
                raise AnalysisError(f'{fi.fq}: the shell is constructed {len(cons)} times on one path')
            bound = _bind_call(init, cons[0][1], cons[0][2])
            for opt, param in wires:
                if opt in syms and bound.get(param) != syms[opt]:
                    bad[opt] = f'option `{opt}` must be passed to the shell as `{param}`; the shell receives `{show(bound.get(param))}`'
            if has_query and 'query' in syms:
                from ..symex import contains
                ran = [e for e in p.events if e[0] == 'call' and str(e[1]).endswith('.onecmd') and e[2] and contains(e[2][0], syms['query'])]
                if not ran and 'query' not in bad:
                    bad['query'] = 'the QUERY given on the command line is not executed'
        for opt, msg in bad.items():
            res.fail(fi.fq, f'optused:wire:{opt}' if opt != 'query' else 'optused:query', msg, loc(fi))
        for opt, param in wires:
            if opt not in bad:
                res.ok({'function': fi.fq, 'query_given': has_query, 'paths': n, 'option': opt, 'shell_parameter': param})
        if has_query and 'query' not in bad:
            res.ok({'function': fi.fq, 'option': 'query', 'effect': 'executed with onecmd'})
    # (2) the constructor keeps them: format and numberify initialise the settings, the rest is kept on the shell
    SELF = Sym('SHELL')
    env = {'self': SELF}
    ps = {p: Sym('P_' + p) for p in init.params[1:]}
    env.update(ps)
    st, fields = _settings(P)
    forder = list(fields)

    def on_call2(fname, fval, recv, args, kwargs, ex, node):
        f = str(fname).split('.')[-1]
        if f == 'Settings':
            return T('new', ('Settings', args, kwargs))
        if f != '__init__' and not (isinstance(fval, T) and fval.op in ('func', 'lambda')):
            ex.events.append(('call', fname, args, kwargs))
            return Sym('R_' + f) if f in ('connect',) else None
        return NotImplemented

    def oracle2(t, ex):
        return None
    n = 0
    for p in Engine(P, on_call=on_call2, max_depth=1, max_paths=64).paths(init, dict(env)):
        n += 1
        if p.outcome == 'raise':
            continue
        sobj = p.heap.get(T('attr', (SELF, 'settings')))
        got = {}
        if isinstance(sobj, T) and sobj.op == 'new' and sobj.args[0] == 'Settings':
            for i, a in enumerate(sobj.args[1]):
                got[forder[i]] = a
            for k, v in sobj.args[2]:
                got[k] = v
            for k, v in p.heap.items():
                if isinstance(k, T) and k.op == 'attr' and k.args[0] == sobj:
                    got[k.args[1]] = v
        miss = [f for f in ('format', 'numberify') if f in ps and got.get(f) != ps[f]]
        if miss:
            res.fail(init.fq, 'optused:settings', f'-f and -m must initialise the format and numberify settings; `{miss[0]}` starts as '
                     f'`{show(got.get(miss[0]))}`', loc(init))
            break
        kept = {'no_errors': 'no_errors', 'filename': 'filename', 'outfile': 'outfile'}
        lost = [a for a, prm in kept.items() if prm in ps and p.heap.get(T('attr', (SELF, a))) != ps[prm]]
        if lost:
            res.fail(init.fq, f'optused:{"no_errors" if "no_errors" in lost else "keep:" + lost[0]}', f'the shell must keep the `{lost[0]}` it is given '
                     f'(-q / -o / FILENAME act through it); self.{lost[0]} is `{show(p.heap.get(T("attr", (SELF, lost[0]))))}`', loc(init))
            break
    else:
        if n:
            for what in ('settings.format', 'settings.numberify', 'no_errors', 'filename', 'outfile'):
                res.ok({'constructor': init.fq, 'paths': n, 'keeps': what})
    # (3) do_reload: the error report is printed exactly when there are errors and -q was not given
    rl = shell.methods.get('do_reload')
    if rl is None:
        raise AnalysisError('anchor vanished: BQLShell.do_reload')
    ERR = T('attr', (T('attr', (SELF, 'context')), 'errors'))
    NOERR = T('attr', (SELF, 'no_errors'))
    okc = 0
    for errors in (True, False):
        for quiet in (True, False):
            def oracle3(t, ex, _e=errors, _q=quiet):
                if t == ERR:
                    return _e
                if t == NOERR:
                    return _q
                if t == T('attr', (SELF, 'filename')):
                    return True
                if t == T('attr', (SELF, 'interactive')):
                    return False
                return None

            def on_call3(fname, fval, recv, args, kwargs, ex, node):
                # a private helper of the shell that do_reload delegates to is followed; everything else is an opaque call
                if recv is SELF and isinstance(node.func, ast.Attribute) and node.func.attr.startswith('_') \
                        and node.func.attr != '_extract_queries' and node.func.attr in shell.methods:
                    return NotImplemented
                ex.events.append(('call', fname, args, kwargs))
                return T('call', (fname, args, kwargs))
            for p in Engine(P, on_call=on_call3, oracle=oracle3, max_depth=2).paths(rl, {'self': SELF, 'arg': None}):
                if p.decisions:
                    und = [t for t, _ in p.decisions]
                    if any(isinstance(t, T) and ('errors' in show(t) or 'no_errors' in show(t)) for t in und):
                        raise AnalysisError(f'{rl.fq}: undecided test `{show(und[0])[:70]}`')
                printed = [e for e in p.events if e[0] == 'call' and str(e[1]).endswith('print_errors')]
                want = errors and not quiet
                if bool(printed) != want:
                    res.fail(f'{shell.fq}.do_reload', 'optused:no_errors',
                             f'-q must suppress the ledger error report printed when the ledger is loaded, and only that: with '
                             f'{"errors" if errors else "no errors"} and {"-q" if quiet else "no -q"} the report is '
                             f'{"printed" if printed else "not printed"}', loc(rl))
                elif printed and (not printed[0][2] or printed[0][2][0] != ERR):
                    res.fail(f'{shell.fq}.do_reload', 'optused:no_errors', f'the error report must show the errors of the loaded ledger; it '
                             f'shows `{show(printed[0][2][0]) if printed[0][2] else "nothing"}`', loc(rl))
                else:
                    okc += 1
                    res.ok({'option': 'no_errors', 'errors': errors, 'quiet': quiet, 'report_printed': bool(printed)})
    return res


# ----------------------------------------------------------------------
# R-SELECTOUT (C19): a statement prints what the renderer of the current format prints for the API result

MUTATING = ('pop', 'popitem', 'clear', 'update', 'setdefault', '__setitem__', '__delitem__')


def _mutates(e, target):
    """Is the event a change of the object `target` stands for (a mutating method call on it, an item store or delete)?"""
    if e[0] == 'call' and isinstance(e[1], str) and e[1].rsplit('.', 1)[-1] in MUTATING and e[1].rsplit('.', 1)[0] == show(target):
        return True
    if e[0] in ('store', 'delete') and isinstance(e[1], T) and e[1].op == 'item' and e[1].args[0] == target:
        return True
    if e[0] == 'mutate' and len(e) > 1 and e[1] == target:
        return True
    return False


def _todict_alias(P):
    """Settings.todict on terms: -> the term it returns when that is the object's own attribute dictionary (vars(self) / self.__dict__),
    None when it is a new mapping (asdict, dict(...), a display or comprehension, .copy())."""
    st = P.module(SH).classes.get('Settings')
    td = st.methods.get('todict') if st else None
    if td is None:
        raise AnalysisError('anchor vanished: Settings.todict')
    S_ = Sym('SETTINGS')
    alias = None
    for p in Engine(P, max_depth=0).paths(td, {'self': S_}):
        v = p.value
        if v in (T('call', ('vars', (S_,), ())), T('attr', (S_, '__dict__'))):
            alias = v
        elif isinstance(v, SList) or (isinstance(v, T) and v.op == 'call' and str(v.args[0]).split('.')[-1] in
                                     ('asdict', 'dict', 'copy', 'deepcopy', 'OrderedDict')):
            continue
        elif p.outcome == 'return':
            raise AnalysisError(f'{td.fq}: returns `{show(v)[:60]}`: neither a new mapping nor the attribute dictionary')
    return alias


def rule_selectout(P):
    """BQLShell.on_Select on terms: the result of context.execute (numberified iff the setting is on, with the ledger's display
    context) goes, once, to the renderer FORMATS[settings.format] together with the output file, the display context and *all*
    settings; nothing else is printed.  The format plug-ins hand everything on to render_text / render_csv; `(empty)` is the text
    format's own rendering of an empty result."""
    from ..report import RuleResult
    res = RuleResult('R-SELECTOUT')
    res.exhaustive = True
    sh = P.module(SH)
    shell = sh.classes.get('BQLShell')
    f = shell.methods.get('on_Select') if shell else None
    if f is None:
        raise AnalysisError('anchor vanished: BQLShell.on_Select')
    SELF, ST = Sym('SHELL'), Sym('STATEMENT')
    CURSOR, ROWS, RENDER = Sym('CURSOR'), Sym('ROWS'), Sym('RENDERER')
    DESC = T('attr', (CURSOR, 'description'))
    NDESC, NROWS = Sym('NUMBERIFIED_DESCRIPTION'), Sym('NUMBERIFIED_ROWS')
    SETTINGS_ = T('attr', (SELF, 'settings'))
    DCTX = T('item', (T('attr', (T('attr', (SELF, 'context')), 'options')), 'dcontext'))
    TODICT = T('call', (show(T('attr', (SETTINGS_, 'todict'))), (), ()))
    live_settings = _todict_alias(P)
    for num, empty in ((True, False), (False, False), (True, True), (False, True)):
        nargs = []

        def on_call(fn, fv, rc, args, kw, ex, node):
            name = str(fn)
            last = name.split('.')[-1]
            if name.endswith('context.execute'):
                ex.events.append(('execute', args))
                return CURSOR
            if rc == CURSOR and last == 'fetchall':
                return ROWS
            if last == 'numberify_results':
                nargs.append(args)
                return T('tuple', (NDESC, NROWS))
            if name.endswith('FORMATS.get') and args[:1] == (T('attr', (SETTINGS_, 'format')),):
                return RENDER
            if fv == RENDER:
                ex.events.append(('render', args, kw))
                return None
            if last == 'print':
                ex.events.append(('print', args, kw))
                return None
            if rc == SETTINGS_ and last == 'todict' and not args:
                ex.events.append(('call', name, args, kw))
                return TODICT          # decided on its own (live dictionary or new mapping), kept as one term here
            return NotImplemented

        def on_item(base, i, ex):
            if isinstance(base, T) and base.op == 'global' and str(base.args[0]).endswith('FORMATS') and i == T('attr', (SETTINGS_, 'format')):
                return RENDER
            return NotImplemented

        def oracle(t, ex, _n=num, _e=empty):
            if t == T('attr', (SETTINGS_, 'numberify')):
                return _n
            if t in (ROWS, NROWS):
                return not _e
            if isinstance(t, T) and t.op == 'call' and t.args[0] == 'len' and t.args[1] in ((ROWS,), (NROWS,)):
                return not _e
            if isinstance(t, T) and t.op == 'cmp' and isinstance(t.args[1], T) and t.args[1].op == 'call' and t.args[1].args[0] == 'len' \
                    and t.args[1].args[1] in ((ROWS,), (NROWS,)) and t.args[2] == 0:
                return {'==': _e, '!=': not _e, '>': not _e, '<=': _e}.get(t.args[0])
            return None
        good = True
        n = 0
        for p in Engine(P, on_call=on_call, on_item=on_item, oracle=oracle, max_depth=2).paths(f, {'self': SELF, f.params[1]: ST}):      # helpers of the handler are interpreted in place
            n += 1
            if not good:
                break
            label = f'numberify {"on" if num else "off"}, {"empty" if empty else "non-empty"} result'
            und = [t for t, _ in p.decisions]
            renders = [e for e in p.events if e[0] == 'render']
            prints = [e for e in p.events if e[0] == 'print']
            execs = [e for e in p.events if e[0] == 'execute']
            if und or prints or len(renders) != 1 or p.outcome == 'raise':
                good = False
                what = f'it prints {[show(a) for a in prints[0][1]]} itself' if prints else \
                    f'it branches on `{show(und[0])[:60]}`' if und else f'the renderer is called {len(renders)} times' if len(renders) != 1 else f'it raises {p.value[0]}'
                res.fail(f.fq, 'selectout:renderer', f'{label}: the output of a statement is what the renderer of the current format prints '
                         f'for the result, for every format and every result: {what}', loc(f))
                continue
            if execs != [('execute', (ST,))]:
                good = False
                res.fail(f.fq, 'selectout:execute', f'{label}: the statement must be executed once through the connection', loc(f))
                continue
            a, kw = renders[0][1], dict((k if k is not None else '**', v) for k, v in renders[0][2])
            want_d, want_r = (NDESC, NROWS) if num else (DESC, ROWS)
            out_ok = len(a) == 3 and isinstance(a[2], T) and a[2].op == 'call' and a[2].args[0] == '__enter__' and \
                a[2].args[1] == (T('attr', (SELF, 'output')),)
            if num and (not nargs or nargs[-1][:2] != (DESC, ROWS) or len(nargs[-1]) != 3 or show(DCTX) not in show(nargs[-1][2])):
                good = False
                res.fail(f.fq, 'selectout:numberify', f'{label}: numberify_results must receive the description and rows of the result and '
                         f'the formatter built from the ledger display context; got ({", ".join(show(x)[:40] for x in (nargs[-1] if nargs else ()))})', loc(f))
            elif a[:2] != (want_d, want_r):
                good = False
                res.fail(f.fq, 'selectout:numberify' if (a[:2] == (DESC, ROWS) or a[:2] == (NDESC, NROWS)) else 'selectout:result',
                         f'{label}: the renderer must receive the {"numberified " if num else ""}description and rows of the result; '
                         f'it receives ({show(a[0])[:40]}, {show(a[1])[:40]})', loc(f))
            elif not out_ok:
                good = False
                res.fail(f.fq, 'selectout:output', f'{label}: the renderer must write to the shell output (`with self.output as out`); it '
                         f'writes to `{show(a[2])[:60] if len(a) > 2 else "nothing"}`', loc(f))
            elif kw.get('dcontext') != DCTX:
                good = False
                res.fail(f.fq, 'selectout:dcontext', f'{label}: the renderer must receive the display context of the ledger', loc(f))
            elif live_settings and [e for e in p.events if _mutates(e, TODICT)]:
                good = False
                m_ = [e for e in p.events if _mutates(e, TODICT)][0]
                res.fail(f.fq, 'selectout:settings-mutated', f'{label}: Settings.todict() hands out `{show(live_settings)}`, the live attribute '
                         f'dictionary of the settings object, and on_Select changes it (`{str(m_[1])[:60]}`): running a statement alters the '
                         f'settings the next statement (and `.set`) sees', loc(f))
            elif kw.get('**') != T('call', (show(T('attr', (SETTINGS_, 'todict'))), (), ())):
                good = False
                res.fail(f.fq, 'selectout:settings', f'{label}: the renderer must receive all current settings (**self.settings.todict()); '
                         f'it receives {sorted(k for k in kw if k != "dcontext")}', loc(f))
        if n == 0:
            raise AnalysisError(f'{f.fq}: no path interpreted')
        if good:
            res.ok({'handler': f.fq, 'numberify': num, 'empty_result': empty, 'paths': n, 'renderer': 'FORMATS[settings.format](desc, rows, out, dcontext=, **settings)'})
    # the journal and balances handlers are the select handler
    for other in ('on_Journal', 'on_Balances'):
        g = shell.methods.get(other)
        if g is None:
            raise AnalysisError(f'anchor vanished: BQLShell.{other}')
        arg = Sym('STATEMENT2')
        for p in Engine(P, max_depth=0).paths(g, {'self': SELF, g.params[1]: arg}):
            calls = [e for e in p.events if e[0] == 'call']
            if p.decisions or len(calls) != 1 or not str(calls[0][1]).endswith('.on_Select') or calls[0][2] != (arg,):
                res.fail(g.fq, 'selectout:delegate', f'{other} must print what on_Select prints for the statement', loc(g))
                break
        else:
            res.ok({'handler': g.fq, 'delegates_to': 'on_Select'})
    # the format plug-ins
    for mod, target, empty_text in (('beanquery.render.text', 'render_text', True), ('beanquery.render.csv', 'render_csv', False)):
        m = P.modules.get(mod)
        rs = m.toplevel_funcs.get('render') if m else None
        if not rs:
            raise AnalysisError(f'anchor vanished: {mod}.render')
        r = rs[-1]
        a_ = r.node.args
        if not a_.kwarg:
            res.fail(r.fq, 'selectout:plugin-settings', f'{mod}.render does not accept the settings as keywords', loc(r))
            continue
        D, R, F, DC, KW = Sym('DESC'), Sym('ROWS_'), Sym('FILE'), Sym('DCONTEXT'), Sym('SETTINGS_KW')
        env = dict(zip(r.params[:3], (D, R, F)))
        env['dcontext'] = DC
        env[a_.kwarg.arg] = KW
        for empty in (True, False):
            def oracle2(t, ex, _e=empty):
                if t == R:
                    return not _e
                if isinstance(t, T) and t.op == 'call' and t.args[0] == 'len' and t.args[1] == (R,):
                    return not _e
                return None

            def on_call2(fn, fv, rc, args, kw, ex, node):
                if str(fn).split('.')[-1] == 'print':
                    ex.events.append(('print', args, kw))
                    return None
                ex.events.append(('call', fn, args, kw))
                return None
            for p in Engine(P, on_call=on_call2, oracle=oracle2, max_depth=0).paths(r, dict(env)):
                prints = [e for e in p.events if e[0] == 'print']
                calls = [e for e in p.events if e[0] == 'call' and str(e[1]).split('.')[-1] == target]
                label = f'{mod}.render, {"empty" if empty else "non-empty"} result'
                if p.decisions:
                    raise AnalysisError(f'{r.fq}: undecided test `{show(p.decisions[0][0])[:60]}`')
                if empty and empty_text:
                    if calls or len(prints) != 1 or prints[0][1] != ('(empty)',) or dict(prints[0][2]).get('file') != F:
                        res.fail(r.fq, 'selectout:empty', f'{label}: an empty text result prints `(empty)` to the output file and nothing else',
                                 loc(r))
                        break
                    continue
                kw = dict((k if k is not None else '**', v) for k, v in (calls[0][3] if calls else ()))
                if prints or len(calls) != 1 or calls[0][2] != (D, R, DC, F):
                    res.fail(r.fq, 'selectout:plugin', f'{label}: the plug-in must hand the description, rows, display context and file to '
                             f'{target} and print nothing itself', loc(r))
                    break
                if kw != {'**': KW}:
                    res.fail(r.fq, 'selectout:plugin-settings', f'{label}: every setting must reach {target} (**kwargs): a setting that is '
                             f'dropped here has no effect in this format although `.set` echoes it; forwarded: {sorted(map(str, kw))}', loc(r))
                    break
            else:
                continue
            break
        else:
            res.ok({'plugin': r.fq, 'renderer': target, 'empty_text': empty_text})
    return res


# ----------------------------------------------------------------------
# R-CMDWORD (C19): the command word of a line; R-QUERYREG (C19): the named queries are those of the ledger as loaded last

def rule_cmdword(P):
    """DispatchingShell.parseline on concrete command words (what cmd.Cmd.parseline returns is given): exactly one leading dot is
    the command prefix - `.set` is the command set, `..set` is the unknown command `.set`, a bare word stays as it is; EOF maps to
    the line `.EOF`."""
    from ..report import RuleResult
    res = RuleResult('R-CMDWORD')
    res.exhaustive = True
    sh = P.module(SH)
    ds = sh.classes.get('DispatchingShell')
    pl = ds.methods.get('parseline') if ds else None
    if pl is None:
        raise AnalysisError('anchor vanished: DispatchingShell.parseline')
    SELF, LINE = Sym('SHELL'), Sym('LINE')
    vectors = [('.set', 'set'), ('..set', '.set'), ('...run', '..run'), ('select', 'select'), ('SELECT', 'SELECT'), ('.', ''), ('.EOF', 'EOF')]
    for word, want in vectors:
        def on_call(fn, fv, rc, args, kw, ex, node, _w=word):
            if str(fn).endswith('parseline') and args == (LINE,):
                return T('tuple', (_w, Sym('ARG'), LINE))
            return NotImplemented
        for p in Engine(P, on_call=on_call, max_depth=0).paths(pl, {'self': SELF, pl.params[1]: LINE}):
            v = p.value
            got = v.args[0] if p.outcome == 'return' and isinstance(v, T) and v.op == 'tuple' and len(v.args) == 3 else None
            if p.decisions or got != want:
                res.fail(pl.fq, 'cmdword:prefix', f'the command word `{word}` must be read as `{want}` (one leading dot is the command prefix, '
                         f'nothing more is removed: `..set x` is the unknown command `.set`, not `.set x`); it is read as '
                         f'`{got if got is not None else show(v)[:40]}`', loc(pl))
                break
            if word == '.EOF' and v.args[2] != '.EOF':
                res.fail(pl.fq, 'cmdword:eof', 'end of input must become the line `.EOF`', loc(pl))
        else:
            res.ok({'word': word, 'command': want})
    return res


def rule_queryreg(P):
    """BQLShell._extract_queries on terms: after loading, the named queries are exactly the query directives of the entries just
    loaded (the first directive of a name wins), whatever the registry held before - `.reload` forgets queries that were removed or
    changed in the file."""
    from ..report import RuleResult
    res = RuleResult('R-QUERYREG')
    res.exhaustive = True
    sh = P.module(SH)
    shell = sh.classes.get('BQLShell')
    fi = shell.methods.get('_extract_queries') if shell else None
    if fi is None:
        raise AnalysisError('anchor vanished: BQLShell._extract_queries')
    SELF, STALE = Sym('SHELL'), Sym('QUERIES_OF_THE_PREVIOUS_LOAD')
    Q1, OTHER, Q2, Q3 = Sym('QUERY_a_first'), Sym('TRANSACTION'), Sym('QUERY_a_second'), Sym('QUERY_b')
    names = {Q1: 'a', Q2: 'a', Q3: 'b'}

    def on_attr(base, attr, ex):
        if base == SELF and attr == 'queries':
            return STALE
        if base in names and attr == 'name':
            return names[base]
        return NotImplemented

    def on_isinstance(v, c, ex):
        from ..symex import gname
        if gname(c).endswith('Query'):
            return v in names
        return NotImplemented

    def on_call(fn, fv, rc, args, kw, ex, node):
        if str(fn).endswith('warn'):
            ex.events.append(('warned', args))
            return None
        return NotImplemented
    for p in Engine(P, on_attr=on_attr, on_isinstance=on_isinstance, on_call=on_call).paths(fi, {'self': SELF, fi.params[1]: SList([Q1, OTHER, Q2, Q3])}):
        final = p.heap.get(T('attr', (SELF, 'queries')))
        stale_use = [e for e in p.events if e[0] == 'call' and show(STALE) in str(e[1])] + \
            [e for e in p.events if e[0] in ('store', 'mutate') and isinstance(e[1], T) and contains(e[1], STALE)]
        got = dict(final.items) if isinstance(final, SList) and final.kind == 'dict' and not final.opaque_tail else None
        if stale_use or final is None:
            res.fail(fi.fq, 'queryreg:stale', 'the named queries must be rebuilt from the entries just loaded: the registry of the previous load '
                     'is kept and added to, so after `.reload` a query that was removed or changed in the file still runs with its old '
                     'text', loc(fi))
        elif p.decisions or got != {'a': Q1, 'b': Q3}:
            res.fail(fi.fq, 'queryreg:content', f'with query directives a, (a transaction), a again, b the named queries must be {{a: the first '
                     f'one, b}}; found `{show(final)[:120]}`', loc(fi))
        else:
            res.ok({'function': fi.fq, 'registry': 'rebuilt from the loaded entries; first directive of a name wins',
                    'duplicate_warned': bool([e for e in p.events if e[0] == 'warned'])})
    return res


# ----------------------------------------------------------------------
# R-OUTPUT (C19): the output of a statement goes to the shell's output file, which stays open for the next statement

def rule_output(P):
    """DispatchingShell.output on terms.  Every handler writes through `with self.output as out`: on every path the property must
    hand out a context manager that yields a file and leaves it open on exit - for a redirected output (-o FILE, a file passed to
    the shell) `nullcontext(self.outfile)`, for the terminal a pager or the flushing wrapper around sys.stdout.  A file object handed
    out as it is would be its own context manager and be closed by the first statement."""
    from ..report import RuleResult
    res = RuleResult('R-OUTPUT')
    res.exhaustive = True
    sh = P.module(SH)
    ds = sh.classes.get('DispatchingShell')
    f = ds.methods.get('output') if ds else None
    if f is None:
        raise AnalysisError('anchor vanished: DispatchingShell.output')
    SELF = Sym('SHELL')
    OUTFILE = T('attr', (SELF, 'outfile'))
    n = 0
    for p in Engine(P, max_depth=1).paths(f, {'self': SELF}):
        n += 1
        if p.outcome != 'return':
            continue
        v = p.value
        tests = [(t, o) for t, o in p.decisions]
        to_terminal = any(isinstance(t, T) and t.op == 'cmp' and t.args[0] in ('is', '==') and OUTFILE in t.args[1:] and 'stdout' in show(t) and o
                          or isinstance(t, T) and t.op == 'cmp' and t.args[0] in ('is not', '!=') and OUTFILE in t.args[1:] and 'stdout' in show(t) and not o
                          for t, o in tests)
        label = 'output on the terminal' if to_terminal else 'output redirected to a file'
        bare = v == OUTFILE or (isinstance(v, T) and v.op in ('global', 'attr') and show(v).endswith("stdout"))
        if bare:
            res.fail(f.fq, 'output:closes', f'{label}: the property hands out the file object itself (`{show(v)[:40]}`): a file is its own context '
                     f'manager, so the first `with self.output as out:` closes it and every later statement of the session fails or writes '
                     f'nothing', loc(f))
            continue
        if not to_terminal:
            ok = isinstance(v, T) and v.op == 'call' and str(v.args[0]).split('.')[-1] == 'nullcontext' and tuple(v.args[1]) == (OUTFILE,) and not v.args[2]
            if not ok:
                res.fail(f.fq, 'output:file', f'{label}: statements must write to the shell\'s output file, left open: nullcontext(self.outfile); '
                         f'found `{show(v)[:80]}`', loc(f))
                continue
        res.ok({'case': label, 'conditions': [f'{show(t)[:40]} is {o}' for t, o in tests], 'hands_out': show(v)[:60]})
    if n == 0:
        raise AnalysisError(f'{f.fq}: no path on terms')
    return res


# ----------------------------------------------------------------------
# R-PRINTOUT (C19, C14): PRINT in the shell is the compiled statement printed to the shell's output

def rule_printout(P):
    """BQLShell.on_Print on terms: the statement is compiled once through the connection, and execute_print receives that compiled
    statement and the file `with self.output as out` yields - nothing else is written, nothing is filtered or sorted here."""
    from ..report import RuleResult
    res = RuleResult('R-PRINTOUT')
    res.exhaustive = True
    sh = P.module(SH)
    shell = sh.classes.get('BQLShell')
    f = shell.methods.get('on_Print') if shell else None
    if f is None:
        raise AnalysisError('anchor vanished: BQLShell.on_Print')
    SELF, ST, COMPILED = Sym('SHELL'), Sym('STATEMENT'), Sym('COMPILED_PRINT')

    def on_call(fn, fv, rc, args, kw, ex, node):
        name = str(fn)
        last = name.split('.')[-1]
        if name.endswith('context.compile'):
            ex.events.append(('x-compile', tuple(args), tuple(kw)))
            return COMPILED
        if last == 'execute_print':
            ex.events.append(('x-print', tuple(args), tuple(kw)))
            return None
        if last == 'print':
            ex.events.append(('x-write', tuple(args), tuple(kw)))
            return None
        return NotImplemented
    n = 0
    for p in Engine(P, on_call=on_call, max_depth=2).paths(f, {'self': SELF, f.params[1]: ST}):
        n += 1
        comp = [e for e in p.events if e[0] == 'x-compile']
        prn = [e for e in p.events if e[0] == 'x-print']
        wr = [e for e in p.events if e[0] == 'x-write']
        out_ok = len(prn) == 1 and len(prn[0][1]) + len(prn[0][2]) == 2
        if out_ok:
            a = list(prn[0][1]) + [v for _, v in prn[0][2]]
            out_ok = a[0] == COMPILED and isinstance(a[1], T) and a[1].op == 'call' and a[1].args[0] == '__enter__' and \
                a[1].args[1] == (T('attr', (SELF, 'output')),)
        if p.decisions or p.outcome == 'raise' or wr or len(comp) != 1 or comp[0][1] != (ST,) or comp[0][2] or not out_ok:
            what = f'it branches on `{show(p.decisions[0][0])[:50]}`' if p.decisions else f'it writes {[show(x)[:30] for x in wr[0][1]]} itself' if wr else \
                f'it compiles {[tuple(map(show, e[1])) for e in comp]} and prints {[tuple(show(x)[:40] for x in e[1]) for e in prn]}'
            res.fail(f.fq, 'printout:flow', f'PRINT in the shell is execute_print(connection.compile(statement), the shell output): {what}', loc(f))
        else:
            res.ok({'handler': f.fq, 'prints': 'execute_print(self.context.compile(statement), out) inside `with self.output as out`'})
    if n == 0:
        raise AnalysisError(f'{f.fq}: no path on terms')
    return res


# ----------------------------------------------------------------------
# R-CMDLOOP (C19): a failing statement is reported and the session goes on

def rule_cmdloop(P):
    """DispatchingShell.cmdloop on terms.  The command loop of cmd.Cmd ends when an exception escapes a command; the shell wraps it:
    an exception is reported through self.error(render_exception(exc)) and the loop is entered again, Ctrl-C likewise (with a note on
    stderr); a normal return of the inner loop (.exit, EOF) ends the session.  So the outcome of one statement never decides whether
    the next one is read."""
    from ..report import RuleResult
    res = RuleResult('R-CMDLOOP')
    res.exhaustive = True
    ds = P.module(SH).classes.get('DispatchingShell')
    f = ds.methods.get('cmdloop') if ds else None
    if f is None:
        raise AnalysisError('anchor vanished: DispatchingShell.cmdloop')
    SELF = Sym('SHELL')
    for scenario, first in (('the inner loop returns', None), ('a command raises', 'ValueError'), ('Ctrl-C', 'KeyboardInterrupt')):
        def on_call(fn, fv, rc, a, k, ex, nd, _first=first):
            name = str(fn)
            last = name.split('.')[-1]
            if last == 'cmdloop' and 'super' in name:
                n_ = sum(1 for e in ex.events if e[0] == 'x-loop')
                ex.events.append(('x-loop', tuple(a)))
                if n_ == 0 and _first:
                    raise Raise(_first, ())
                return None
            if last == 'error' and rc == SELF:
                ex.events.append(('x-error', tuple(a)))
                return None
            if last == 'render_exception':
                return T('call', ('render_exception', tuple(a), ()))
            if last == 'print':
                ex.events.append(('x-print', tuple(a), tuple(k)))
                return None
            return NotImplemented
        n = 0
        for p in Engine(P, on_call=on_call, max_depth=0).paths(f, {'self': SELF}):
            n += 1
            loops = [e for e in p.events if e[0] == 'x-loop']
            errs = [e for e in p.events if e[0] == 'x-error']
            if first is None:
                good = p.outcome in ('return', 'fallthrough') and len(loops) == 1 and not errs
                want = 'the session ends: the inner loop is entered once and cmdloop returns'
            elif first == 'ValueError':
                good = p.outcome in ('return', 'fallthrough') and len(loops) == 2 and len(errs) == 1 and \
                    isinstance(errs[0][1][0], T) and errs[0][1][0].op == 'call' and errs[0][1][0].args[0] == 'render_exception'
                want = 'the exception is reported with self.error(render_exception(exc)) and the command loop is entered again'
            else:
                good = p.outcome in ('return', 'fallthrough') and len(loops) == 2
                want = 'the command loop is entered again'
            if good:
                res.ok({'scenario': scenario, 'then': want})
            else:
                res.fail(f.fq, 'cmdloop:resume', f'when {scenario}: {want}; found the inner loop entered {len(loops)} time(s), {len(errs)} error report(s), '
                         f'cmdloop ends with {p.outcome}{" " + str(p.value[0]) if p.outcome == "raise" else ""}', loc(f))
        if n == 0:
            raise AnalysisError(f'{f.fq}: no path on terms')
    return res
