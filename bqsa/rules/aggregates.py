"""R-AGGCLASS: the per-class contract of the aggregate functions (C02, C12)."""
from __future__ import annotations

import ast

from beancount.core import amount, position, inventory

from .. import registry, finite
from ..registry import ANY, ASTERISK, tname
from ..loader import AnalysisError, FuncInfo, ClassInfo, loc, body_without_docstring, is_none
from ..report import RuleResult

VAL = finite.Sym('VALUE')
CUR = finite.Sym('CURRENT')
VALZ = finite.Falsy('VALUE0')      # a non-NULL value that is false: 0, '', Decimal(0), FALSE
CURZ = finite.Falsy('CURRENT0')










MUTATOR_FOR = {amount.Amount: 'add_amount', position.Position: 'add_position', inventory.Inventory: 'add_inventory'}


