"""R-AGGCLASS: the per-class contract of the aggregate functions (C02, C12)."""
from __future__ import annotations

import ast

from beancount.core import amount, position, inventory

from .. import registry, finite
from ..registry import ANY, ASTERISK, tname
from ..loader import AnalysisError, FuncInfo, ClassInfo, loc, body_without_docstring, is_none
from ..report import RuleResult

VAL = finite.Sym('VALUE')
CUR = finite.Sym('CURRENT')
VALZ = finite.Falsy('VALUE0')      # a non-NULL value that is false: 0, '', Decimal(0), FALSE
CURZ = finite.Falsy('CURRENT0')


def _same(a, b):
    return a is b or (isinstance(a, finite.Sym) and isinstance(b, finite.Sym) and a.name.rstrip('0') == b.name.rstrip('0'))


def _is_slot(e):
    return (isinstance(e, ast.Subscript) and isinstance(e.value, ast.Name) and e.value.id == 'store'
            and ast.unparse(e.slice) == 'self.handle')


class AggMachine(finite.Machine):
    """Executes an aggregator's update() for one (operand value class, slot state, ordering outcome)."""

    def __init__(self, value, slot, order):
        super().__init__(call=self._call, subscript=self._sub, order=self._order,
                         names={'self': finite.Sym('self'), 'store': finite.Sym('store'), 'context': finite.Sym('ctx')})
        self.value = value
        self.slot = slot
        self.ord = order   # 'lt' | 'eq' | 'gt'  (value relative to current)
        self.reads_operand = 0
        self.query_answer = True      # answer given to a state query on the accumulator (`store[h].is_empty()`)
        self.queries = 0
        self.aliases = set()

    def _call(self, e, st, m):
        src = ast.unparse(e.func)
        if src.startswith('self.operands[') and len(e.args) == 1 and ast.unparse(e.args[0]) == 'context':
            self.reads_operand += 1
            return self.value
        is_acc = isinstance(e.func, ast.Attribute) and (_is_slot(e.func.value) or (
            isinstance(e.func.value, ast.Name) and e.func.value.id in self.aliases))
        if is_acc and not e.args and not e.keywords:
            # a question asked of the accumulator: both answers are explored by the rule
            self.queries += 1
            return self.query_answer
        if src in ('min', 'max') and len(e.args) == 2 and not e.keywords:
            a, b = (self.ev(x, st) for x in e.args)
            if a is None or b is None:
                self.events.append(('null-compare', src))
                return a if b is None else b
            if a == b:
                return a
            # min(a, b) returns b iff b < a
            lt = self._order(ast.Lt(), b, a)
            if src == 'min':
                return b if lt else a
            gt = self._order(ast.Gt(), b, a)
            return b if gt else a
        return NotImplemented

    def _sub(self, e, st, m):
        if _is_slot(e):
            return self.slot
        raise AnalysisError(f'aggregate update: unsupported subscript {ast.unparse(e)}')

    def _order(self, op, left, right):
        if left is None or right is None:
            self.events.append(('null-compare', type(op).__name__))
            return False
        isv = lambda x: x in (VAL, VALZ)
        isc = lambda x: x in (CUR, CURZ)
        if isv(left) and isc(right):
            rel = self.ord
        elif isc(left) and isv(right):
            rel = {'lt': 'gt', 'gt': 'lt', 'eq': 'eq'}[self.ord]
        elif isv(left) and isv(right) or isc(left) and isc(right):
            rel = 'eq'
        else:
            raise AnalysisError('aggregate update: ordering comparison between unexpected operands')
        return {ast.Lt: rel == 'lt', ast.Gt: rel == 'gt', ast.LtE: rel in ('lt', 'eq'), ast.GtE: rel in ('gt', 'eq')}[type(op)]

    def stmt(self, s, st):
        if isinstance(s, ast.Assign) and len(s.targets) == 1 and isinstance(s.targets[0], ast.Name):
            # a local name for the accumulator object (`total = store[self.handle]`): the same object under another name
            if _is_slot(s.value):
                self.aliases.add(s.targets[0].id)
            else:
                self.aliases.discard(s.targets[0].id)
        if isinstance(s, ast.Expr) and isinstance(s.value, ast.Call) and isinstance(s.value.func, ast.Attribute) \
                and isinstance(s.value.func.value, ast.Name) and s.value.func.value.id in self.aliases:
            self.events.append(('mut', s.value.func.attr, tuple(self.ev(a, st) for a in s.value.args)))
            return st
        if isinstance(s, ast.Assign) and len(s.targets) == 1 and _is_slot(s.targets[0]):
            v = self.ev(s.value, st)
            self.events.append(('write', v))
            self.slot = v
            return st
        if isinstance(s, ast.AugAssign) and _is_slot(s.target):
            self.events.append(('aug', type(s.op).__name__, self.ev(s.value, st)))
            return st
        if isinstance(s, ast.Expr) and isinstance(s.value, ast.Call) and isinstance(s.value.func, ast.Attribute) \
                and _is_slot(s.value.func.value):
            self.events.append(('mut', s.value.func.attr, tuple(self.ev(a, st) for a in s.value.args)))
            return st
        if isinstance(s, (ast.Assign, ast.AugAssign)):
            tgt = s.targets[0] if isinstance(s, ast.Assign) else s.target
            if isinstance(tgt, ast.Attribute):
                self.events.append(('self-write', ast.unparse(tgt)))
                return st
            if isinstance(tgt, ast.Subscript):
                self.events.append(('foreign-write', ast.unparse(tgt)))
                return st
        return super().stmt(s, st)


def _run_update(fi, value, slot, order='gt', query_answer=True):
    m = AggMachine(value, slot, order)
    m.query_answer = query_answer
    try:
        m.run(body_without_docstring(fi.node), {})
    except finite.Return:
        pass
    return m


MUTATOR_FOR = {amount.Amount: 'add_amount', position.Position: 'add_position', inventory.Inventory: 'add_inventory'}


def rule_aggclass(P) -> RuleResult:
    res = RuleResult('R-AGGCLASS')
    res.exhaustive = True
    reg = registry.get(P)
    aggs = [f for f in reg.funcs if f.kind == 'aggregator']
    if not aggs:
        raise AnalysisError('anchor vanished: no aggregate functions registered')
    for f in aggs:
        ci = f.cls.info
        construct = f'aggregate:{f.label}'
        upd = P.find_method(ci, 'update')
        ini = P.find_method(ci, 'initialize')
        fin = P.find_method(ci, 'finalize')
        call = P.find_method(ci, '__call__')
        if not all(isinstance(x, FuncInfo) for x in (upd, ini, fin, call)):
            raise AnalysisError(f'{ci.fq}: aggregator protocol methods not found')
        where = loc(upd)
        n0 = len(res.findings)

        def fail(detail, msg):
            res.fail(construct, 'aggclass:' + detail, f'{f.label} ({ci.name}): {msg}', where)

        # --- isolation: update writes only its own slot; nothing on self, nothing foreign
        cases = []
        slots = [None, CUR, CURZ]
        for value in (None, VAL, VALZ):
            for slot in slots:
                for order in ('lt', 'eq', 'gt'):
                    try:
                        m = _run_update(upd, value, slot, order)
                    except AnalysisError as exc:
                        raise AnalysisError(f'{ci.fq}.update: {exc}') from exc
                    cases.append((value, slot, order, m))
                    if m.queries:
                        cases.append((value, slot, order, _run_update(upd, value, slot, order, query_answer=False)))
        for value, slot, order, m in cases:
            for e in m.events:
                if e[0] == 'null-compare':
                    fail('null-order', 'a NULL value (or an empty slot) reaches an ordering comparison in update(): TypeError at run time')
                if e[0] == 'self-write':
                    fail('isolation', f'update() writes `{e[1]}`: state kept on the node leaks between groups')
                if e[0] == 'foreign-write':
                    fail('isolation', f'update() writes `{e[1]}` instead of its own slot store[self.handle]')
        # --- initialize: fresh value per group
        writes = [n for n in ast.walk(ini.node) if isinstance(n, ast.Assign) and _is_slot(n.targets[0])]
        if len(writes) != 1:
            fail('initialize', 'initialize() must bind store[self.handle] exactly once')
            init_kind = None
        else:
            v = writes[0].value
            if is_none(v):
                init_kind = 'null'
            elif isinstance(v, ast.Call) and ast.unparse(v.func) == 'self.dtype' and not v.args:
                init_kind = 'zero'
            elif isinstance(v, ast.Call):
                init_kind = 'fresh'
            elif isinstance(v, ast.Constant):
                init_kind = 'const'
            else:
                init_kind = None
                fail('initialize', f'initialize() binds the slot to `{ast.unparse(v)}`, an object shared between groups; '
                     f'each group needs a fresh value')
        # --- finalize/__call__: the value of this group's slot
        fsrc = ast.unparse(fin.node)
        if 'store[self.handle]' not in fsrc:
            fail('finalize', 'finalize() does not read store[self.handle]')

        # --- the fold itself
        name = f.name
        writes_of = lambda m: [e for e in m.events if e[0] in ('write', 'aug', 'mut')]
        if name == 'count' and f.intypes[0] is ASTERISK:
            for value, slot, order, m in cases:
                w = writes_of(m)
                if m.reads_operand:
                    fail('fold', 'count(*) counts rows and must not depend on an operand')
                    break
                if w != [('aug', 'Add', 1)]:
                    fail('fold', f'count(*) must add 1 for every row; update() performs {w}')
                    break
            if init_kind != 'zero':
                fail('zero', 'count starts from the zero of its type (self.dtype())')
        elif name == 'count':
            for value, slot, order, m in cases:
                w = writes_of(m)
                want = [('aug', 'Add', 1)] if value is not None else []
                if w != want:
                    fail('fold', f'count(x) counts non-NULL values: for a {"NULL" if value is None else "non-NULL"} value '
                         f'update() performs {w}, expected {want}')
                    break
            if init_kind != 'zero':
                fail('zero', 'count starts from the zero of its type (self.dtype())')
        elif name == 'sum':
            t = f.intypes[0]
            mut = MUTATOR_FOR.get(t)
            for value, slot, order, m in cases:
                w = writes_of(m)
                want = [] if value is None else ([('mut', mut, (value,))] if mut else [('aug', 'Add', value)])
                if w != want:
                    fail('fold', f'sum over {tname(t)} adds non-NULL values'
                         + (f' with {mut}()' if mut else ' with +=')
                         + f': for a {"NULL" if value is None else "non-NULL"} value update() performs {w}')
                    break
            if init_kind != 'zero':
                fail('zero', 'sum starts from the zero of its accumulator type (self.dtype())')
        elif name in ('min', 'max'):
            better = 'lt' if name == 'min' else 'gt'
            for value, slot, order, m in cases:
                w = writes_of(m)
                if value is None:
                    want = [[]]
                elif slot is None:
                    want = [[('write', value)]]
                elif order == better:
                    want = [[('write', value)]]
                elif order == 'eq':
                    want = [[], [('write', value)], [('write', slot)]]
                else:
                    want = [[], [('write', slot)]]
                if w not in want:
                    fail('fold', f'{name} keeps the {"smallest" if name == "min" else "largest"} non-NULL value: with value '
                         f'{"NULL" if value is None else "zero/empty" if value is VALZ else "non-NULL"}, current '
                         f'{"NULL" if slot is None else "zero/empty" if slot is CURZ else "set"}, value '
                         f'{ {"lt": "<", "eq": "==", "gt": ">"}[order]} current, update() performs {w}')
                    break
            if init_kind != 'null':
                fail('zero', f'{name} of no value is NULL: the slot must start as None')
        elif name == 'first':
            for value, slot, order, m in cases:
                w = writes_of(m)
                want = [[('write', value)]] if slot is None else [[]]
                if slot is None and value is None:
                    want.append([])
                if w not in want:
                    fail('fold', f'first keeps the first non-NULL value and never overwrites it: with current '
                         f'{"NULL" if slot is None else "set"} and a {"NULL" if value is None else "non-NULL"} value update() performs {w}')
                    break
            if init_kind != 'null':
                fail('zero', 'first of no value is NULL: the slot must start as None')
        elif name == 'last':
            for value, slot, order, m in cases:
                w = writes_of(m)
                if w != [('write', value)]:
                    fail('fold', f'last takes the value of every row in turn: with a {"NULL" if value is None else "non-NULL"} '
                         f'value update() performs {w}')
                    break
            if init_kind != 'null':
                fail('zero', 'last of no value is NULL: the slot must start as None')
        else:
            res.info(f'new-instance: aggregate {f.label} has no contract on record (isolation checked only)')
        if len(res.findings) == n0:
            res.ok({'aggregate': f.label, 'class': ci.name, 'cases': len(cases), 'initial': init_kind})
    return res
