"""C18 R-CASTTOTAL; C17 numberify rules (R-SIBLINGS, R-NONEFLOW, R-IDENTITY)."""
from __future__ import annotations

import ast
import itertools
from decimal import Decimal

from beancount.core import amount, position, inventory

from .. import registry
from ..registry import ANY, ASTERISK, tname
from ..absint import (Interp, Frame, A, TOP, NoneT, Struct, Coll, Tup, atoms_of, join_all, TYPE_ERRORS)
from ..loader import AnalysisError, FuncInfo, ClassInfo, loc, body_without_docstring
from ..report import RuleResult
from .dtype import run_overload

NU = 'beanquery.numberify'
CASTS = ('bool', 'int', 'decimal', 'str', 'date')


def unparse(n):
    return ast.unparse(n)


def rule_casttotal(P) -> RuleResult:
    """Type casts return the converted value or NULL, never an error."""
    res = RuleResult('R-CASTTOTAL')
    res.exhaustive = True
    reg = registry.get(P)
    it = Interp(P, reg)
    U = sorted(reg.universe() - {NoneT}, key=lambda t: t.__name__)
    n = 0
    for f in reg.funcs:
        if f.name not in CASTS or f.kind != 'function':
            continue
        n += 1
        pools = []
        for t in f.intypes:
            if t is ANY or t is object:
                pools.append(U)       # untyped values can hold anything a column or metadata value can be
            else:
                pools.append([t])
        escaped = {}
        ncombo = 0
        for combo in itertools.product(*pools):
            ncombo += 1
            _, frame = run_overload(it, f.impl, [], [A(t) for t in combo])
            for r in frame.raises:
                if r.what == 'raise':
                    escaped.setdefault(r.exc, (combo, r))
                    continue
                if r.exc in ('reraise',):
                    continue
                escaped.setdefault(r.exc, (combo, r))
        construct = f'function:{f.label}'
        if escaped:
            for exc, (combo, r) in sorted(escaped.items()):
                res.fail(construct, f'casttotal:{exc}',
                         f'{f.label} must return NULL for values it cannot convert, but {exc} escapes from `{r.what}` for an '
                         f'operand of type {", ".join(t.__name__ for t in combo)}', f'{f.impl.module.path}:{r.lineno}')
        else:
            res.ok({'cast': f.label, 'operand_types_tried': ncombo})
    if n < 10:
        raise AnalysisError(f'only {n} cast overloads found')
    return res


# ----------------------------------------------------------------------
# numberify

TRIPLE = [('Amount', amount.Amount), ('Position', position.Position), ('Inventory', inventory.Inventory)]


def rule_numberify_null(P) -> RuleResult:
    """Every cell of a result column may be NULL: converters and censuses must test before dereferencing."""
    res = RuleResult('R-NONEFLOW')
    reg = registry.get(P)
    m = P.module(NU)
    it = Interp(P, reg)
    for name, t in TRIPLE:
        cell = A(t, NoneT)
        row = Coll(list, cell)
        conv = m.classes.get(f'{name}Converter')
        census = m.toplevel_funcs.get(f'convert_col_{name}')
        if conv is None or not census:
            raise AnalysisError(f'anchor vanished: {name}Converter / convert_col_{name}')
        call = conv.methods.get('__call__')
        self_ = Struct('self', {'index': A(int), 'currency': A(str), 'name': A(str)})
        for fi, env_extra, what in ((call, {'self': self_, 'drow': row, 'dformat': TOP}, f'{name}Converter.__call__'),
                                    (census[-1], {'name': A(str), 'drows': Coll(list, row), 'index': A(int)}, f'convert_col_{name}')):
            env = it.new_env(fi)
            for p in fi.params:
                env[p] = TOP
            env.update(env_extra)
            frame = it.run_function(fi, env)
            errs = sorted({(r.exc, r.what, r.atoms, r.lineno) for r in frame.raises
                           if r.exc in TYPE_ERRORS and r.definite and 'NoneType' in r.atoms})
            if errs:
                exc, w, atoms, ln = errs[0]
                res.fail(f'{NU}:{what}', 'noneflow:cell',
                         f'{what} dereferences a result cell (`{w}`) without testing it: a NULL in a {name} column raises {exc}',
                         f'{fi.module.path}:{ln}')
            else:
                res.ok({'function': what, 'cell': f'{name} | NULL'})
    return res


def _aspects(P, m, name):
    """Comparable aspects of one converter family."""
    conv = m.classes[f'{name}Converter']
    census = m.toplevel_funcs[f'convert_col_{name}'][-1]
    out = {}
    out['dtype'] = unparse(conv.attrs['dtype']) if 'dtype' in conv.attrs else None
    rets = [n for n in ast.walk(census.node) if isinstance(n, ast.Return)]
    comp = rets[-1].value if rets else None
    if isinstance(comp, ast.ListComp) and isinstance(comp.elt, ast.Call):
        c = comp.elt
        out['converter'] = unparse(c.func)
        out['name_template'] = unparse(c.args[0]) if c.args else None
        out['converter_args'] = [unparse(a) for a in c.args[1:]]
        g = comp.generators[0]
        s = g.iter
        if isinstance(s, ast.Call) and unparse(s.func) == 'sorted':
            kw = {k.arg: unparse(k.value) for k in s.keywords}
            out['census_key'] = kw.get('key')
            out['census_reverse'] = kw.get('reverse')
            out['census_source'] = unparse(s.args[0]) if s.args else None
        else:
            out['census_key'] = out['census_reverse'] = None
            out['census_source'] = unparse(s)
    call = conv.methods.get('__call__')
    src = unparse(call.node)
    qs = [n for n in ast.walk(call.node) if isinstance(n, ast.Call) and unparse(n.func).endswith('.quantize')]
    out['quantize_currency'] = unparse(qs[0].args[1]) if qs and len(qs[0].args) > 1 else None
    guarded = False
    for n in ast.walk(call.node):
        if isinstance(n, ast.If) and any(x is q for q in qs for x in ast.walk(n)):
            if 'dformat' in {x.id for x in ast.walk(n.test) if isinstance(x, ast.Name)}:
                guarded = True
    out['quantize_iff_dformat'] = guarded
    # quantisation applies once, to the number of the cell (summed over lots), not to the parts it is summed from
    out['quantize_once_per_cell'] = not any(isinstance(n, (ast.For, ast.While, ast.ListComp, ast.GeneratorExp)) and any(x is q for q in qs for x in ast.walk(n))
                                            for n in ast.walk(call.node))
    out['index_param'] = 'self.index' in src
    return out


def rule_siblings(P) -> RuleResult:
    res = RuleResult('R-SIBLINGS')
    m = P.module(NU)
    fam = {}
    for name, _ in TRIPLE:
        if f'{name}Converter' not in m.classes or f'convert_col_{name}' not in m.toplevel_funcs:
            raise AnalysisError(f'anchor vanished: numberify family {name}')
        fam[name] = _aspects(P, m, name)
    keys = sorted(set().union(*[set(a) for a in fam.values()]) - {'converter'})
    for k in keys:
        vals = {n: fam[n].get(k) for n in fam}
        # the converter class name differs by construction: normalise it out of the values
        norm = {n: (str(v).replace(n, '<T>') if v is not None else None) for n, v in vals.items()}
        distinct = set(map(repr, norm.values()))
        if len(distinct) == 1:
            res.ok({'aspect': k, 'value': next(iter(norm.values()))})
            continue
        # the deviant sibling
        counts = {}
        for n, v in norm.items():
            counts.setdefault(repr(v), []).append(n)
        minority = min(counts.values(), key=len)
        for n in minority:
            others = [x for x in fam if x != n]
            res.fail(f'{NU}:{n}Converter', f'siblings:{k}',
                     f'the {n} converter family deviates from its siblings in `{k}`: {vals[n]!r} versus {vals[others[0]]!r} '
                     f'({", ".join(others)})', loc(m.classes[f'{n}Converter']))
    # absolute requirements of the statement
    for n, a in fam.items():
        if a.get('dtype') != 'Decimal':
            res.fail(f'{NU}:{n}Converter', 'siblings:dtype', f'numberified columns are decimal columns; {n}Converter.dtype is {a.get("dtype")}')
        if a.get('census_reverse') != 'True' or 'item[1]' not in (a.get('census_key') or '').replace(' ', ''):
            res.fail(f'{NU}:convert_col_{n}', 'siblings:order', f'currency columns must be ordered by decreasing frequency '
                     f'(sorted by count, reverse=True); found key={a.get("census_key")}, reverse={a.get("census_reverse")}')
        tmpl = (a.get('name_template') or '').replace(' ', '')
        if tmpl not in ("'{}({})'.format(name,currency)", "f'{name}({currency})'"):
            res.fail(f'{NU}:convert_col_{n}', 'siblings:name', f'columns must be named "name (CUR)"; template is {a.get("name_template")}')
        if a.get('quantize_once_per_cell') is False:
            res.fail(f'{NU}:{n}Converter', 'siblings:quantize-parts', f'{n}Converter quantizes inside a loop: the parts are rounded before '
                     f'they are summed, so the cell is no longer the quantized number of units of the currency')
        if a.get('quantize_currency') != 'self.currency' or not a.get('quantize_iff_dformat'):
            res.fail(f'{NU}:{n}Converter', 'siblings:quantize', f'{n}Converter must quantize to its own currency exactly when a '
                     f'formatter is given')
    return res


def rule_identity(P) -> RuleResult:
    res = RuleResult('R-IDENTITY')
    m = P.module(NU)
    reg = registry.get(P)
    fn = m.toplevel_funcs.get('numberify_results')
    if not fn:
        raise AnalysisError('anchor vanished: numberify_results')
    fi = fn[-1]
    src = unparse(fi.node)
    n0 = len(res.findings)
    # CONVERTING_TYPES maps each type to the factory of the same name
    for t, fname in reg.converting_types.items():
        if fname != f'convert_col_{t.__name__}':
            res.fail(f'{NU}:CONVERTING_TYPES', f'identity:map:{t.__name__}', f'{t.__name__} columns are converted by {fname}')
        else:
            res.ok({'type': t.__name__, 'factory': fname})
    if set(reg.converting_types) != {amount.Amount, position.Position, inventory.Inventory}:
        res.fail(f'{NU}:CONVERTING_TYPES', 'identity:types', 'exactly Amount, Position and Inventory columns are numberified')
    # identity converter for everything else, bound to the same index, name, dtype
    calls = [n for n in ast.walk(fi.node) if isinstance(n, ast.Call) and unparse(n.func) == 'IdentityConverter']
    loops = [n for n in fi.node.body if isinstance(n, ast.For)]
    if len(calls) != 1 or not loops:
        raise AnalysisError(f'{fi.fq}: shape not understood')
    lp = loops[0]
    if not (isinstance(lp.iter, ast.Call) and unparse(lp.iter.func) == 'enumerate'):
        raise AnalysisError(f'{fi.fq}: converter loop is not over enumerate(columns)')
    iv, cv = (unparse(x) for x in lp.target.elts)
    if [unparse(a) for a in calls[0].args] != [f'{cv}.name', f'{cv}.datatype', iv]:
        res.fail(fi.fq, 'identity:args', f'other columns must be copied unchanged: IdentityConverter({cv}.name, {cv}.datatype, {iv}); '
                 f'found `{unparse(calls[0])}`', loc(fi, calls[0]))
    fac = [n for n in ast.walk(lp) if isinstance(n, ast.Call) and isinstance(n.func, ast.Name) and n.func.id not in ('IdentityConverter', 'enumerate')
           and len(n.args) == 3]
    if not fac or [unparse(a) for a in fac[0].args][0] != f'{cv}.name' or unparse(fac[0].args[2]) != iv:
        res.fail(fi.fq, 'identity:factory-args', 'converter factories must receive the column name, the rows and the column index', loc(fi))
    ident = m.classes.get('IdentityConverter')
    c = ident.methods.get('__call__') if ident else None
    if c is None or 'return drow[self.index]' not in unparse(c.node):
        res.fail(f'{NU}:IdentityConverter', 'identity:copy', 'IdentityConverter must return the cell at its index')
    # rows: one output row per input row, converters applied in order
    row_loops = [n for n in fi.node.body if isinstance(n, ast.For) and n is not lp]
    if len(row_loops) != 1:
        raise AnalysisError(f'{fi.fq}: row loop not found')
    rl = row_loops[0]
    inner = [n for n in rl.body if isinstance(n, ast.For)]
    apps = [n for n in ast.walk(rl) if isinstance(n, ast.Call) and isinstance(n.func, ast.Attribute) and n.func.attr == 'append']
    if len(inner) != 1 or unparse(inner[0].iter) != 'converters' or len(apps) != 2:
        res.fail(fi.fq, 'identity:rows', 'every input row must yield one output row built by applying all converters in order', loc(fi, rl))
    if 'tuple(Column(c.name, c.dtype) for c in converters)' not in src.replace('\n', ' '):
        res.info('output description shape not recognised (not judged)')
    if len(res.findings) == n0:
        res.ok({'function': fi.fq, 'identity': 'name, datatype, index', 'rows': 'one per input row, converters in column order'})
    return res


# ----------------------------------------------------------------------
# R-REDUCE (C12): f(inventory) is defined as f mapped over the positions of the inventory

def rule_reduce(P) -> RuleResult:
    from beancount.core import inventory as _inv, position as _pos
    res = RuleResult('R-REDUCE')
    reg = registry.get(P)
    by = reg.funcs_by_name()
    n = 0
    for name in ('units', 'cost', 'value', 'convert'):
        pos_f = [f for f in by.get(name, []) if f.intypes and f.intypes[0] is _pos.Position and f.impl is not None]
        inv_f = [f for f in by.get(name, []) if f.intypes and f.intypes[0] is _inv.Inventory and f.impl is not None]
        if not pos_f or not inv_f:
            raise AnalysisError(f'anchor vanished: position / inventory overloads of {name}()')
        pimpl, iimpl = pos_f[0].impl, inv_f[0].impl
        # the position overload: return convert.X(pos, extra...)
        prets = [x for x in ast.walk(pimpl.node) if isinstance(x, ast.Return) and x.value is not None]
        irets = [x for x in ast.walk(iimpl.node) if isinstance(x, ast.Return) and x.value is not None]
        if len(prets) != 1 or len(irets) != 1 or not isinstance(prets[0].value, ast.Call) or not isinstance(irets[0].value, ast.Call):
            raise AnalysisError(f'{name}(): overload bodies not understood')
        pc, ic = prets[0].value, irets[0].value
        pfn = pimpl.module.dotted(pc.func)
        p_off = 1 if (pos_f[0].pass_context or pos_f[0].pass_row) else 0
        i_off = 1 if (inv_f[0].pass_context or inv_f[0].pass_row) else 0
        pparam = pimpl.params[p_off]
        iparam = iimpl.params[i_off]
        pextra = [unparse(a) for a in pc.args[1:]]
        construct = f'function:{inv_f[0].label}'
        n += 1
        ok = (isinstance(ic.func, ast.Attribute) and ic.func.attr == 'reduce' and unparse(ic.func.value) == iparam
              and ic.args and iimpl.module.dotted(ic.args[0]) == pfn and [unparse(a) for a in ic.args[1:]] == pextra
              and unparse(pc.args[0]) == pparam)
        if ok:
            res.ok({'function': name, 'position': f'{pfn}(pos, {", ".join(pextra)})', 'inventory': f'inv.reduce({pfn}, {", ".join(pextra)})'})
        else:
            res.fail(construct, 'reduce:definition',
                     f'{name}(inventory) must be {name}(position) applied to every position of that very inventory - '
                     f'`{iparam}.reduce({pfn.split(".")[-1]}, {", ".join(pextra)})` - so that it commutes with sum(); found '
                     f'`{unparse(ic)}`', loc(iimpl))
    return res


# ----------------------------------------------------------------------
# R-CALSIB (C18): date_trunc / date_part / quarter agree on how each calendar unit is cut

def _unit_params(fi: FuncInfo):
    """{unit: (date attribute, offset, modulus)} from `if field == 'unit': return <expr with (x.attr + k) % m or // m>`."""
    out = {}
    for n in ast.walk(fi.node):
        if not isinstance(n, ast.If):
            continue
        units = re.findall(r"== '(\w+)'", unparse(n.test))
        rets = [s for s in n.body if isinstance(s, ast.Return)]
        if not units or not rets:
            continue
        p = _modparams(rets[0].value)
        for u in units:
            if p:
                out[u] = p
    return out


def _modparams(expr):
    for b in ast.walk(expr):
        if isinstance(b, ast.BinOp) and isinstance(b.op, (ast.Mod, ast.FloorDiv)) and isinstance(b.right, ast.Constant) \
                and isinstance(b.right.value, int):
            left = b.left
            off = 0
            if isinstance(left, ast.BinOp) and isinstance(left.op, (ast.Add, ast.Sub)) and isinstance(left.right, ast.Constant):
                off = left.right.value if isinstance(left.op, ast.Add) else -left.right.value
                left = left.left
            if isinstance(left, ast.Attribute) and isinstance(left.value, ast.Name):
                return (left.attr, off, b.right.value)
    return None


import re  # noqa: E402


def rule_calsib(P) -> RuleResult:
    res = RuleResult('R-CALSIB')
    m = P.module('beanquery.query_env')
    fs = {}
    for name in ('date_trunc', 'date_part', 'quarter'):
        f = m.toplevel_funcs.get(name)
        if not f:
            raise AnalysisError(f'anchor vanished: query_env.{name}')
        fs[name] = f[0] if name == 'quarter' else f[-1]
    trunc = _unit_params(fs['date_trunc'])
    part = _unit_params(fs['date_part'])
    q = None
    for r in ast.walk(fs['quarter'].node):
        if isinstance(r, ast.Return):
            q = _modparams(r.value)
    if len(trunc) < 3 or len(part) < 3:
        raise AnalysisError('calendar unit formulas of date_trunc / date_part not recognised')
    for unit in sorted(set(trunc) & set(part)):
        if trunc[unit] != part[unit]:
            res.fail(f'function:date_part[{unit}]', f'calsib:{unit}',
                     f"date_trunc('{unit}') cuts {trunc[unit][0]} as ({trunc[unit][0]} {trunc[unit][1]:+d}) mod {trunc[unit][2]} but "
                     f"date_part('{unit}') numbers it as ({part[unit][0]} {part[unit][1]:+d}) div {part[unit][2]}: a date and the start of "
                     f"its {unit} get different {unit} numbers at the boundary", loc(fs['date_part']))
        else:
            res.ok({'unit': unit, 'attribute': trunc[unit][0], 'offset': trunc[unit][1], 'period': trunc[unit][2]})
    if q is not None and 'quarter' in part:
        if q != part['quarter']:
            res.fail('function:quarter', 'calsib:quarter-function', f"quarter() computes {q}, date_part('quarter') {part['quarter']}", loc(fs['quarter']))
        else:
            res.ok({'unit': 'quarter()', 'agrees_with': "date_part('quarter')"})
    return res


# ----------------------------------------------------------------------
# R-DEFN (C18): functions that the statement defines by a Python primitive are that primitive

DEFINITIONS = {
    'upper': 'p0.upper()', 'lower': 'p0.lower()', 'length': 'len(p0)', 'substr': 'p0[p1:p2]',
    'splitcomp': 'p0.split(p1)[p2]', 'joinstr': "','.join(p0)", 'subst': 're.sub(p0, p1, p2)',
    'maxwidth': 'textwrap.shorten(p0, width=p1)', 'neg': '-p0', 'abs': 'abs(p0)', 'round': 'round(p0, p1)',
    'year': 'p0.year', 'month': 'p0.month', 'day': 'p0.day', 'date_diff': '(p0 - p1).days',
    'date_add': 'p0 + datetime.timedelta(days=p1)', 'yearmonth': 'datetime.date(p0.year, p0.month, 1)',
    'number': 'p0.number', 'currency': 'p0.currency', 'commodity': 'p0.currency',
    'root': 'account.root(p1, p0)', 'parent': 'account.parent(p0)', 'leaf': 'account.leaf(p0)',
    'repr': 'repr(p0)', 'only': 'p1.get_currency_units(p0)', 'empty': 'p0.is_empty()',
}


def _dterm(e, env, module):
    """A normal form of straight-line expressions: parameters by position, calls by resolved name."""
    if isinstance(e, ast.Name):
        return env.get(e.id, ('name', e.id))
    if isinstance(e, ast.Constant):
        return ('const', e.value)
    if isinstance(e, ast.Attribute):
        base = e.value
        d = module.dotted(e) if not _rooted_in(e, env) else None
        if d and not d.startswith('builtins.'):
            return ('global', d)
        return ('attr', _dterm(base, env, module), e.attr)
    if isinstance(e, ast.BinOp):
        return ('bin', type(e.op).__name__, _dterm(e.left, env, module), _dterm(e.right, env, module))
    if isinstance(e, ast.UnaryOp):
        return ('un', type(e.op).__name__, _dterm(e.operand, env, module))
    if isinstance(e, ast.Subscript):
        if isinstance(e.slice, ast.Slice):
            return ('slice', _dterm(e.value, env, module), *[_dterm(x, env, module) if x is not None else None
                                                           for x in (e.slice.lower, e.slice.upper, e.slice.step)])
        return ('item', _dterm(e.value, env, module), _dterm(e.slice, env, module))
    if isinstance(e, ast.Call):
        args = tuple(_dterm(a, env, module) for a in e.args)
        kws = tuple(sorted((k.arg, _dterm(k.value, env, module)) for k in e.keywords))
        if isinstance(e.func, ast.Attribute) and (_rooted_in(e.func, env) or isinstance(e.func.value, ast.Constant)):
            return ('meth', _dterm(e.func.value, env, module), e.func.attr, args, kws)
        d = module.dotted(e.func)
        return ('call', (d or unparse(e.func)).replace('builtins.', ''), args, kws)
    return ('expr', unparse(e))


def _rooted_in(e, env):
    while isinstance(e, (ast.Attribute, ast.Subscript, ast.Call)):
        e = e.value if not isinstance(e, ast.Call) else e.func
    return isinstance(e, ast.Name) and e.id in env or isinstance(e, (ast.BinOp,))


def rule_defn(P) -> RuleResult:
    res = RuleResult('R-DEFN')
    reg = registry.get(P)
    m = P.module('beanquery.query_env')
    seen = set()
    for f in reg.funcs:
        if f.kind != 'function' or f.impl is None or f.name not in DEFINITIONS or (f.name, f.impl.fq) in seen:
            continue
        seen.add((f.name, f.impl.fq))
        fi = f.impl
        body = body_without_docstring(fi.node)
        off = 1 if (f.pass_context or f.pass_row) else 0
        params = fi.params[off:]
        env = {p: ('p', i) for i, p in enumerate(params)}
        # defaults make shorter overloads instances of the same definition
        term = None
        straight = True
        for st in body:
            if isinstance(st, ast.Assign) and len(st.targets) == 1 and isinstance(st.targets[0], ast.Name):
                env[st.targets[0].id] = _dterm(st.value, env, fi.module)
            elif isinstance(st, ast.Return) and st.value is not None:
                term = _dterm(st.value, env, fi.module)
                break
            else:
                straight = False
                break
        if not straight or term is None:
            res.info(f'{f.name}: body is not a straight-line definition (not judged)')
            continue
        ref = ast.parse(DEFINITIONS[f.name], mode='eval').body
        renv = {f'p{i}': ('p', i) for i in range(6)}
        want = _dterm(ref, renv, m)
        construct = f'function:{f.name}'
        if term == want:
            res.ok({'function': f.name, 'definition': DEFINITIONS[f.name]})
        else:
            shown = unparse(next(s.value for s in body if isinstance(s, ast.Return)))
            res.fail(construct, 'defn:changed', f'{f.name}({", ".join(params)}) is defined as `{DEFINITIONS[f.name]}` '
                     f'(p0, p1, ... = its arguments); the implementation computes `{shown}`', loc(fi))
    if len(seen) < 15:
        raise AnalysisError(f'only {len(seen)} definitional functions found')
    return res
