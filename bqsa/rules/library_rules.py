"""C18 R-CASTTOTAL; C17 numberify rules (R-SIBLINGS, R-NONEFLOW, R-IDENTITY)."""
from __future__ import annotations

import ast
import itertools
from decimal import Decimal

from beancount.core import amount, position, inventory

from .. import registry
from ..registry import ANY, ASTERISK, tname
from ..absint import (Interp, Frame, A, TOP, NoneT, Struct, Coll, Tup, atoms_of, join_all, TYPE_ERRORS)
from ..loader import AnalysisError, FuncInfo, ClassInfo, loc, body_without_docstring
from ..report import RuleResult
from .dtype import run_overload

NU = 'beanquery.numberify'
CASTS = ('bool', 'int', 'decimal', 'str', 'date')


def unparse(n):
    return ast.unparse(n)


def rule_casttotal(P) -> RuleResult:
    """Type casts return the converted value or NULL, never an error."""
    res = RuleResult('R-CASTTOTAL')
    res.exhaustive = True
    reg = registry.get(P)
    it = Interp(P, reg)
    U = sorted(reg.universe() - {NoneT}, key=lambda t: t.__name__)
    n = 0
    for f in reg.funcs:
        if f.name not in CASTS or f.kind != 'function':
            continue
        n += 1
        pools = []
        for t in f.intypes:
            if t is ANY or t is object:
                pools.append(U)       # untyped values can hold anything a column or metadata value can be
            else:
                pools.append([t])
        escaped = {}
        ncombo = 0
        for combo in itertools.product(*pools):
            ncombo += 1
            _, frame = run_overload(it, f.impl, [], [A(t) for t in combo])
            for r in frame.raises:
                if r.what == 'raise':
                    escaped.setdefault(r.exc, (combo, r))
                    continue
                if r.exc in ('reraise',):
                    continue
                escaped.setdefault(r.exc, (combo, r))
        construct = f'function:{f.label}'
        if escaped:
            for exc, (combo, r) in sorted(escaped.items()):
                res.fail(construct, f'casttotal:{exc}',
                         f'{f.label} must return NULL for values it cannot convert, but {exc} escapes from `{r.what}` for an '
                         f'operand of type {", ".join(t.__name__ for t in combo)}', f'{f.impl.module.path}:{r.lineno}')
        else:
            res.ok({'cast': f.label, 'operand_types_tried': ncombo})
    if n < 10:
        raise AnalysisError(f'only {n} cast overloads found')
    return res


# ----------------------------------------------------------------------
# numberify

TRIPLE = [('Amount', amount.Amount), ('Position', position.Position), ('Inventory', inventory.Inventory)]


def rule_numberify_null(P) -> RuleResult:
    """Every cell of a result column may be NULL: converters and censuses must test before dereferencing."""
    res = RuleResult('R-NONEFLOW')
    reg = registry.get(P)
    m = P.module(NU)
    it = Interp(P, reg)
    for name, t in TRIPLE:
        cell = A(t, NoneT)
        row = Coll(list, cell)
        conv = m.classes.get(f'{name}Converter')
        census = m.toplevel_funcs.get(f'convert_col_{name}')
        if conv is None or not census:
            raise AnalysisError(f'anchor vanished: {name}Converter / convert_col_{name}')
        call = conv.methods.get('__call__')
        self_ = Struct('self', {'index': A(int), 'currency': A(str), 'name': A(str)})
        for fi, env_extra, what in ((call, {'self': self_, 'drow': row, 'dformat': TOP}, f'{name}Converter.__call__'),
                                    (census[-1], {'name': A(str), 'drows': Coll(list, row), 'index': A(int)}, f'convert_col_{name}')):
            env = it.new_env(fi)
            for p in fi.params:
                env[p] = TOP
            env.update(env_extra)
            frame = it.run_function(fi, env)
            errs = sorted({(r.exc, r.what, r.atoms, r.lineno) for r in frame.raises
                           if r.exc in TYPE_ERRORS and r.definite and 'NoneType' in r.atoms})
            if errs:
                exc, w, atoms, ln = errs[0]
                res.fail(f'{NU}:{what}', 'noneflow:cell',
                         f'{what} dereferences a result cell (`{w}`) without testing it: a NULL in a {name} column raises {exc}',
                         f'{fi.module.path}:{ln}')
            else:
                res.ok({'function': what, 'cell': f'{name} | NULL'})
    return res








# ----------------------------------------------------------------------
# R-REDUCE (C12): f(inventory) is defined as f mapped over the positions of the inventory



# ----------------------------------------------------------------------
# R-CALSIB (C18): date_trunc / date_part / quarter agree on how each calendar unit is cut





import re  # noqa: E402




# ----------------------------------------------------------------------
# R-DEFN (C18): functions that the statement defines by a Python primitive are that primitive

DEFINITIONS = {
    'upper': 'p0.upper()', 'lower': 'p0.lower()', 'length': 'len(p0)', 'substr': 'p0[p1:p2]',
    'splitcomp': 'p0.split(p1)[p2]', 'joinstr': "','.join(p0)", 'subst': 're.sub(p0, p1, p2)',
    'maxwidth': 'textwrap.shorten(p0, width=p1)', 'neg': '-p0', 'abs': 'abs(p0)', 'round': 'round(p0, p1)',
    'year': 'p0.year', 'month': 'p0.month', 'day': 'p0.day', 'date_diff': '(p0 - p1).days',
    'date_add': 'p0 + datetime.timedelta(days=p1)', 'yearmonth': 'datetime.date(p0.year, p0.month, 1)',
    'number': 'p0.number', 'currency': 'p0.currency', 'commodity': 'p0.currency',
    'root': 'account.root(p1, p0)', 'parent': 'account.parent(p0)', 'leaf': 'account.leaf(p0)',
    'repr': 'repr(p0)', 'only': 'p1.get_currency_units(p0)', 'empty': 'p0.is_empty()',
}


def _dterm(e, env, module):
    """A normal form of straight-line expressions: parameters by position, calls by resolved name."""
    if isinstance(e, ast.Name):
        return env.get(e.id, ('name', e.id))
    if isinstance(e, ast.Constant):
        return ('const', e.value)
    if isinstance(e, ast.Attribute):
        base = e.value
        d = module.dotted(e) if not _rooted_in(e, env) else None
        if d and not d.startswith('builtins.'):
            return ('global', d)
        return ('attr', _dterm(base, env, module), e.attr)
    if isinstance(e, ast.BinOp):
        return ('bin', type(e.op).__name__, _dterm(e.left, env, module), _dterm(e.right, env, module))
    if isinstance(e, ast.UnaryOp):
        return ('un', type(e.op).__name__, _dterm(e.operand, env, module))
    if isinstance(e, ast.Subscript):
        if isinstance(e.slice, ast.Slice):
            return ('slice', _dterm(e.value, env, module), *[_dterm(x, env, module) if x is not None else None
                                                           for x in (e.slice.lower, e.slice.upper, e.slice.step)])
        return ('item', _dterm(e.value, env, module), _dterm(e.slice, env, module))
    if isinstance(e, ast.Call):
        args = tuple(_dterm(a, env, module) for a in e.args)
        kws = tuple(sorted((k.arg, _dterm(k.value, env, module)) for k in e.keywords))
        if isinstance(e.func, ast.Attribute) and (_rooted_in(e.func, env) or isinstance(e.func.value, ast.Constant)):
            return ('meth', _dterm(e.func.value, env, module), e.func.attr, args, kws)
        d = module.dotted(e.func)
        return ('call', (d or unparse(e.func)).replace('builtins.', ''), args, kws)
    return ('expr', unparse(e))


def _rooted_in(e, env):
    while isinstance(e, (ast.Attribute, ast.Subscript, ast.Call)):
        e = e.value if not isinstance(e, ast.Call) else e.func
    return isinstance(e, ast.Name) and e.id in env or isinstance(e, (ast.BinOp,))


