"""C18 R-CASTTOTAL; C17 numberify rules (R-SIBLINGS, R-NONEFLOW, R-IDENTITY)."""
from __future__ import annotations

import ast
import itertools
from decimal import Decimal

from beancount.core import amount, position, inventory

from .. import registry
from ..registry import ANY, ASTERISK, tname
from ..absint import (Interp, Frame, A, TOP, NoneT, Struct, Coll, Tup, atoms_of, join_all, TYPE_ERRORS)
from ..loader import AnalysisError, FuncInfo, ClassInfo, loc, body_without_docstring
from ..report import RuleResult
from .dtype import run_overload

NU = 'beanquery.numberify'
CASTS = ('bool', 'int', 'decimal', 'str', 'date')


def unparse(n):
    return ast.unparse(n)


def rule_casttotal(P) -> RuleResult:
    """Type casts return the converted value or NULL, never an error."""
    res = RuleResult('R-CASTTOTAL')
    res.exhaustive = True
    reg = registry.get(P)
    it = Interp(P, reg)
    U = sorted(reg.universe() - {NoneT}, key=lambda t: t.__name__)
    n = 0
    for f in reg.funcs:
        if f.name not in CASTS or f.kind != 'function':
            continue
        n += 1
        pools = []
        for t in f.intypes:
            if t is ANY or t is object:
                pools.append(U)       # untyped values can hold anything a column or metadata value can be
            else:
                pools.append([t])
        escaped = {}
        ncombo = 0
        for combo in itertools.product(*pools):
            ncombo += 1
            _, frame = run_overload(it, f.impl, [], [A(t) for t in combo])
            for r in frame.raises:
                if r.what == 'raise':
                    escaped.setdefault(r.exc, (combo, r))
                    continue
                if r.exc in ('reraise',):
                    continue
                escaped.setdefault(r.exc, (combo, r))
        construct = f'function:{f.label}'
        if escaped:
            for exc, (combo, r) in sorted(escaped.items()):
                res.fail(construct, f'casttotal:{exc}',
                         f'{f.label} must return NULL for values it cannot convert, but {exc} escapes from `{r.what}` for an '
                         f'operand of type {", ".join(t.__name__ for t in combo)}', f'{f.impl.module.path}:{r.lineno}')
        else:
            res.ok({'cast': f.label, 'operand_types_tried': ncombo})
    if n < 10:
        raise AnalysisError(f'only {n} cast overloads found')
    return res


# ----------------------------------------------------------------------
# numberify

TRIPLE = [('Amount', amount.Amount), ('Position', position.Position), ('Inventory', inventory.Inventory)]


def rule_numberify_null(P) -> RuleResult:
    """Every cell of a result column may be NULL: converters and censuses must test before dereferencing."""
    res = RuleResult('R-NONEFLOW')
    reg = registry.get(P)
    m = P.module(NU)
    it = Interp(P, reg)
    for name, t in TRIPLE:
        cell = A(t, NoneT)
        row = Coll(list, cell)
        conv = m.classes.get(f'{name}Converter')
        census = m.toplevel_funcs.get(f'convert_col_{name}')
        if conv is None or not census:
            raise AnalysisError(f'anchor vanished: {name}Converter / convert_col_{name}')
        call = conv.methods.get('__call__')
        self_ = Struct('self', {'index': A(int), 'currency': A(str), 'name': A(str)})
        for fi, env_extra, what in ((call, {'self': self_, 'drow': row, 'dformat': TOP}, f'{name}Converter.__call__'),
                                    (census[-1], {'name': A(str), 'drows': Coll(list, row), 'index': A(int)}, f'convert_col_{name}')):
            env = it.new_env(fi)
            for p in fi.params:
                env[p] = TOP
            env.update(env_extra)
            frame = it.run_function(fi, env)
            errs = sorted({(r.exc, r.what, r.atoms, r.lineno) for r in frame.raises
                           if r.exc in TYPE_ERRORS and r.definite and 'NoneType' in r.atoms})
            if errs:
                exc, w, atoms, ln = errs[0]
                res.fail(f'{NU}:{what}', 'noneflow:cell',
                         f'{what} dereferences a result cell (`{w}`) without testing it: a NULL in a {name} column raises {exc}',
                         f'{fi.module.path}:{ln}')
            else:
                res.ok({'function': what, 'cell': f'{name} | NULL'})
    return res


def _aspects(P, m, name):
    """Comparable aspects of one converter family."""
    conv = m.classes[f'{name}Converter']
    census = m.toplevel_funcs[f'convert_col_{name}'][-1]
    out = {}
    out['dtype'] = unparse(conv.attrs['dtype']) if 'dtype' in conv.attrs else None
    rets = [n for n in ast.walk(census.node) if isinstance(n, ast.Return)]
    comp = rets[-1].value if rets else None
    if isinstance(comp, ast.ListComp) and isinstance(comp.elt, ast.Call):
        c = comp.elt
        out['converter'] = unparse(c.func)
        out['name_template'] = unparse(c.args[0]) if c.args else None
        out['converter_args'] = [unparse(a) for a in c.args[1:]]
        g = comp.generators[0]
        s = g.iter
        if isinstance(s, ast.Call) and unparse(s.func) == 'sorted':
            kw = {k.arg: unparse(k.value) for k in s.keywords}
            out['census_key'] = kw.get('key')
            out['census_reverse'] = kw.get('reverse')
            out['census_source'] = unparse(s.args[0]) if s.args else None
        else:
            out['census_key'] = out['census_reverse'] = None
            out['census_source'] = unparse(s)
    call = conv.methods.get('__call__')
    src = unparse(call.node)
    qs = [n for n in ast.walk(call.node) if isinstance(n, ast.Call) and unparse(n.func).endswith('.quantize')]
    out['quantize_currency'] = unparse(qs[0].args[1]) if qs and len(qs[0].args) > 1 else None
    guarded = False
    for n in ast.walk(call.node):
        if isinstance(n, ast.If) and any(x is q for q in qs for x in ast.walk(n)):
            if 'dformat' in {x.id for x in ast.walk(n.test) if isinstance(x, ast.Name)}:
                guarded = True
    out['quantize_iff_dformat'] = guarded
    out['index_param'] = 'self.index' in src
    return out


def rule_siblings(P) -> RuleResult:
    res = RuleResult('R-SIBLINGS')
    m = P.module(NU)
    fam = {}
    for name, _ in TRIPLE:
        if f'{name}Converter' not in m.classes or f'convert_col_{name}' not in m.toplevel_funcs:
            raise AnalysisError(f'anchor vanished: numberify family {name}')
        fam[name] = _aspects(P, m, name)
    keys = sorted(set().union(*[set(a) for a in fam.values()]) - {'converter'})
    for k in keys:
        vals = {n: fam[n].get(k) for n in fam}
        # the converter class name differs by construction: normalise it out of the values
        norm = {n: (str(v).replace(n, '<T>') if v is not None else None) for n, v in vals.items()}
        distinct = set(map(repr, norm.values()))
        if len(distinct) == 1:
            res.ok({'aspect': k, 'value': next(iter(norm.values()))})
            continue
        # the deviant sibling
        counts = {}
        for n, v in norm.items():
            counts.setdefault(repr(v), []).append(n)
        minority = min(counts.values(), key=len)
        for n in minority:
            others = [x for x in fam if x != n]
            res.fail(f'{NU}:{n}Converter', f'siblings:{k}',
                     f'the {n} converter family deviates from its siblings in `{k}`: {vals[n]!r} versus {vals[others[0]]!r} '
                     f'({", ".join(others)})', loc(m.classes[f'{n}Converter']))
    # absolute requirements of the statement
    for n, a in fam.items():
        if a.get('dtype') != 'Decimal':
            res.fail(f'{NU}:{n}Converter', 'siblings:dtype', f'numberified columns are decimal columns; {n}Converter.dtype is {a.get("dtype")}')
        if a.get('census_reverse') != 'True' or 'item[1]' not in (a.get('census_key') or '').replace(' ', ''):
            res.fail(f'{NU}:convert_col_{n}', 'siblings:order', f'currency columns must be ordered by decreasing frequency '
                     f'(sorted by count, reverse=True); found key={a.get("census_key")}, reverse={a.get("census_reverse")}')
        tmpl = (a.get('name_template') or '').replace(' ', '')
        if tmpl not in ("'{}({})'.format(name,currency)", "f'{name}({currency})'"):
            res.fail(f'{NU}:convert_col_{n}', 'siblings:name', f'columns must be named "name (CUR)"; template is {a.get("name_template")}')
        if a.get('quantize_currency') != 'self.currency' or not a.get('quantize_iff_dformat'):
            res.fail(f'{NU}:{n}Converter', 'siblings:quantize', f'{n}Converter must quantize to its own currency exactly when a '
                     f'formatter is given')
    return res


def rule_identity(P) -> RuleResult:
    res = RuleResult('R-IDENTITY')
    m = P.module(NU)
    reg = registry.get(P)
    fn = m.toplevel_funcs.get('numberify_results')
    if not fn:
        raise AnalysisError('anchor vanished: numberify_results')
    fi = fn[-1]
    src = unparse(fi.node)
    n0 = len(res.findings)
    # CONVERTING_TYPES maps each type to the factory of the same name
    for t, fname in reg.converting_types.items():
        if fname != f'convert_col_{t.__name__}':
            res.fail(f'{NU}:CONVERTING_TYPES', f'identity:map:{t.__name__}', f'{t.__name__} columns are converted by {fname}')
        else:
            res.ok({'type': t.__name__, 'factory': fname})
    if set(reg.converting_types) != {amount.Amount, position.Position, inventory.Inventory}:
        res.fail(f'{NU}:CONVERTING_TYPES', 'identity:types', 'exactly Amount, Position and Inventory columns are numberified')
    # identity converter for everything else, bound to the same index, name, dtype
    calls = [n for n in ast.walk(fi.node) if isinstance(n, ast.Call) and unparse(n.func) == 'IdentityConverter']
    loops = [n for n in fi.node.body if isinstance(n, ast.For)]
    if len(calls) != 1 or not loops:
        raise AnalysisError(f'{fi.fq}: shape not understood')
    lp = loops[0]
    if not (isinstance(lp.iter, ast.Call) and unparse(lp.iter.func) == 'enumerate'):
        raise AnalysisError(f'{fi.fq}: converter loop is not over enumerate(columns)')
    iv, cv = (unparse(x) for x in lp.target.elts)
    if [unparse(a) for a in calls[0].args] != [f'{cv}.name', f'{cv}.datatype', iv]:
        res.fail(fi.fq, 'identity:args', f'other columns must be copied unchanged: IdentityConverter({cv}.name, {cv}.datatype, {iv}); '
                 f'found `{unparse(calls[0])}`', loc(fi, calls[0]))
    fac = [n for n in ast.walk(lp) if isinstance(n, ast.Call) and isinstance(n.func, ast.Name) and n.func.id not in ('IdentityConverter', 'enumerate')
           and len(n.args) == 3]
    if not fac or [unparse(a) for a in fac[0].args][0] != f'{cv}.name' or unparse(fac[0].args[2]) != iv:
        res.fail(fi.fq, 'identity:factory-args', 'converter factories must receive the column name, the rows and the column index', loc(fi))
    ident = m.classes.get('IdentityConverter')
    c = ident.methods.get('__call__') if ident else None
    if c is None or 'return drow[self.index]' not in unparse(c.node):
        res.fail(f'{NU}:IdentityConverter', 'identity:copy', 'IdentityConverter must return the cell at its index')
    # rows: one output row per input row, converters applied in order
    row_loops = [n for n in fi.node.body if isinstance(n, ast.For) and n is not lp]
    if len(row_loops) != 1:
        raise AnalysisError(f'{fi.fq}: row loop not found')
    rl = row_loops[0]
    inner = [n for n in rl.body if isinstance(n, ast.For)]
    apps = [n for n in ast.walk(rl) if isinstance(n, ast.Call) and isinstance(n.func, ast.Attribute) and n.func.attr == 'append']
    if len(inner) != 1 or unparse(inner[0].iter) != 'converters' or len(apps) != 2:
        res.fail(fi.fq, 'identity:rows', 'every input row must yield one output row built by applying all converters in order', loc(fi, rl))
    if 'tuple(Column(c.name, c.dtype) for c in converters)' not in src.replace('\n', ' '):
        res.info('output description shape not recognised (not judged)')
    if len(res.findings) == n0:
        res.ok({'function': fi.fq, 'identity': 'name, datatype, index', 'rows': 'one per input row, converters in column order'})
    return res
