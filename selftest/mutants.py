"""Mutants and benign twins for the checker's self-test (bqsa/battery.py).

Each mutant is a small, realistic edit of beanquery that compiles, keeps the
pinned suite green (validated with tools/validate_mutants.py, results in
selftest/manifest.json) and breaks a property; `expect` names the rule that
must fire and a substring of the construct it must name.  Twins keep the
behaviour and must not change the findings.  Three Connection mutants marked
also_caught_by_suite are kept as regressions of R-CONNECTION only (the pinned
suite notices them too).  `regress/*.diff` re-introduce the
defects repaired by the fix: commits.
"""

MUTANTS = []


def M(prop, name, file, old, new, expect, **kw):
    MUTANTS.append({'prop': prop, 'name': name, 'edits': [{'file': file, 'old': old, 'new': new}],
                    'expect': expect, **kw})


def M2(prop, name, edits, expect, **kw):
    MUTANTS.append({'prop': prop, 'name': name,
                    'edits': [{'file': f, 'old': o, 'new': n} for f, o, n in edits], 'expect': expect, **kw})


def T(prop, name, file, old, new):
    MUTANTS.append({'prop': prop, 'name': name, 'edits': [{'file': file, 'old': old, 'new': new}], 'twin': True})


def R(prop, name, patch, expect):
    MUTANTS.append({'prop': prop, 'name': name, 'patch': 'regress/' + patch, 'expect': expect})


QC = 'beanquery/query_compile.py'
QE = 'beanquery/query_env.py'
QX = 'beanquery/query_execute.py'
CO = 'beanquery/compiler.py'
CU = 'beanquery/cursor.py'
SB = 'beanquery/sources/beancount.py'
NU = 'beanquery/numberify.py'
SH = 'beanquery/shell.py'

# ---------------------------------------------------------------------- C04
R('C04', 'regress-D5-interval-minus-date', 'ff3b2d3-reject-interval---date-at-compile-time.diff',
  ('R-TYPESAFE', 'operator:Sub[relativedelta,date]'))
R('C04', 'regress-D6-sum-bool', '8458139-sum---of-a-boolean-expression-is-an-int.diff',
  ('R-DTYPE', 'aggregate:sum(int)'))
R('C04', 'regress-D31-bool-of-inventory', 'c1a0ce4-bool---of-an-inventory-is-NULL.diff', ('R-TYPESAFE', 'function:bool('))
R('C04', 'regress-D26-date-bin-null-stride', 'b091713-date-bin---with-an-invalid-stride-string-is-NULL.diff',
  ('R-TYPESAFE', 'function:date_bin(str, date, date)'))
M('C04', 'date_diff-returns-timedelta', QE,
  "    return (x - y).days\n\n\n@function([datetime.date, int], datetime.date)",
  "    return x - y\n\n\n@function([datetime.date, int], datetime.date)",
  ('R-DTYPE', 'function:date_diff'))
M('C04', 'quarter-declared-int', QE,
  "@function([datetime.date], str)\ndef quarter(x):", "@function([datetime.date], int)\ndef quarter(x):",
  ('R-DTYPE', 'function:quarter'))
M('C04', 'cost_number-returns-cost', QE,
  "    return cost.number if cost else None", "    return cost if cost else None",
  ('R-DTYPE', 'column:PostingsTable.cost_number'))
M('C04', 'mul-int-decimal-declared-int', QC,
  "@binaryop(ast.Mul, [int, Decimal], Decimal)", "@binaryop(ast.Mul, [int, Decimal], int)",
  ('R-DTYPE', 'operator:Mul[int,Decimal]'))
M('C04', 'sub_date_date-without-days', QC,
  "def sub_date_date(x, y):\n    return (x - y).days", "def sub_date_date(x, y):\n    return x - y",
  ('R-DTYPE', 'operator:Sub[date,date]'))
M('C04', 'entries-flag-without-isinstance', QE,
  "    \"\"\"The flag the transaction.\"\"\"\n    if not isinstance(context.entry, data.Transaction):\n        return None\n",
  "    \"\"\"The flag the transaction.\"\"\"\n",
  ('R-TYPESAFE', 'column:EntriesTable.flag'))
M('C04', 'location-without-meta-guard', QE,
  "    if meta is None:\n        return None\n    return '{:s}:{:d}:'.format(meta['filename'], meta['lineno'])",
  "    return '{:s}:{:d}:'.format(meta['filename'], meta['lineno'])",
  ('R-TYPESAFE', 'column:PostingsTable.location'))
M('C04', 'new-overload-length-int', QE,
  "@function([list], int)\n@function([set], int)\n@function([str], int)\ndef length(x):",
  "@function([list], int)\n@function([set], int)\n@function([str], int)\n@function([int], int)\ndef length(x):",
  ('R-TYPESAFE', 'function:length(int)'))
M('C04', 'year-column-returns-date', QE,
  "    return context.entry.date.year", "    return context.entry.date",
  ('R-DTYPE', 'column:EntriesTable.year'))
M('C04', 'sum-decimal-announces-int', QE,
  "class SumDecimal(query_compile.EvalAggregator):\n    \"\"\"Calculate the sum of the numerical argument.\"\"\"\n",
  "class SumDecimal(query_compile.EvalAggregator):\n    \"\"\"Calculate the sum of the numerical argument.\"\"\"\n"
  "    def __init__(self, context, operands):\n        super().__init__(context, operands, int)\n\n",
  ('R-DTYPE', 'aggregate:sum(Decimal)'))
M('C04', 'count-announces-operand-type', QE,
  "    \"\"\"Count the number of non-NULL occurrences of the argument.\"\"\"\n    def __init__(self, context, operands):\n        super().__init__(context, operands, int)",
  "    \"\"\"Count the number of non-NULL occurrences of the argument.\"\"\"\n    def __init__(self, context, operands):\n        super().__init__(context, operands)",
  ('R-DTYPE', 'aggregate:count(any)'))
T('C04', 'twin-reorder-decorators', QE,
  "@function([Decimal, Decimal], Decimal)\n@function([Decimal, int], Decimal)\ndef safediv",
  "@function([Decimal, int], Decimal)\n@function([Decimal, Decimal], Decimal)\ndef safediv")
T('C04', 'twin-date_diff-local', QE,
  "    return (x - y).days\n\n\n@function([datetime.date, int], datetime.date)",
  "    delta = x - y\n    return delta.days\n\n\n@function([datetime.date, int], datetime.date)")
T('C04', 'twin-new-conforming-overload', QE,
  "@function([str], str)\ndef upper(string):",
  "@function([str], str, name='ucase')\n@function([str], str)\ndef upper(string):")

# re-introduced D4 (the reverse patch of 4a58d58 overlaps a later fix)
M('C04', 'regress-D4-interval-sub-declared-date-direct', QC,
  "@binaryop(ast.Sub, [relativedelta, relativedelta], relativedelta)",
  "@binaryop(ast.Sub, [relativedelta, relativedelta], datetime.date)",
  ('R-DTYPE', 'operator:Sub[relativedelta,relativedelta]'))

# ---------------------------------------------------------------------- C01
M('C01', 'binaryop-drop-right-null-test', QC,
  "        right = self.right(context)\n        if right is None:\n            return None\n        return self.operator(left, right)",
  "        right = self.right(context)\n        return self.operator(left, right)",
  ('R-NULLSTRICT', 'EvalBinaryOp.__call__'))
M('C01', 'neg-registered-nullsafe', QC,
  "@unaryop(ast.Neg, [int], int)", "@unaryop(ast.Neg, [int], int, nullsafe=True)",
  ('R-NULLSTRICT', 'operator:Neg[int]'))
M('C01', 'isnull-on-propagating-base', QC,
  "@unaryop(ast.IsNull, [types.Any], bool, nullsafe=True)", "@unaryop(ast.IsNull, [types.Any], bool)",
  ('R-NULLSTRICT', 'operator:IsNull[any]'))
M('C01', 'function-wrapper-no-null-test', QE,
  "                args = [operand(row) for operand in self.operands]\n                for arg in args:\n                    if arg is None:\n                        return None\n",
  "                args = [operand(row) for operand in self.operands]\n",
  ('R-EVALALL', 'Func.__call__'))
M('C01', 'function-wrapper-checks-first-arg-only', QE,
  "                for arg in args:\n                    if arg is None:\n                        return None\n",
  "                if args and args[0] is None:\n                    return None\n",
  ('R-EVALALL', 'Func.__call__'))
M('C01', 'getitem-no-container-null-test', QE,
  "        obj, key = self.operands\n        obj = obj(row)\n        if obj is None:\n            return None\n",
  "        obj, key = self.operands\n        obj = obj(row)\n",
  ('R-NULLSTRICT', 'GetItem2.__call__'))
M('C01', 'between-upper-not-null-tested', QC,
  "        upper = self.upper(context)\n        if upper is None:\n            return None\n",
  "        upper = self.upper(context)\n",
  ('R-NULLSTRICT', 'EvalBetween.__call__'))
M('C01', 'mod-without-zero-test', QC,
  "def mod_(x, y):\n    if y == 0:\n        return None\n    return x % y", "def mod_(x, y):\n    return x % y",
  ('R-DIVGUARD', 'operator:Mod'))
M('C01', 'div-zero-returns-zero', QC,
  "def div_(x, y):\n    if y == 0:\n        return None", "def div_(x, y):\n    if y == 0:\n        return Decimal(0)",
  ('R-DIVGUARD', 'operator:Div'))
M('C01', 'div_int-tests-dividend', QC,
  "def div_int(x, y):\n    if y == 0:", "def div_int(x, y):\n    if x == 0:",
  ('R-DIVGUARD', 'operator:Div[int,int]'))
M('C01', 'mul-int-decimal-announces-int', QC,
  "@binaryop(ast.Mul, [int, Decimal], Decimal)", "@binaryop(ast.Mul, [int, Decimal], int)",
  ('R-PROMOTE', 'operator:Mul[int,Decimal]'))
M('C01', 'div-int-int-announces-int', QC,
  "@binaryop(ast.Div, [int, int], Decimal)", "@binaryop(ast.Div, [int, int], int)",
  ('R-PROMOTE', 'operator:Div[int,int]'))
M('C01', 'comparison-overload-missing', QC,
  "    [int, int],\n    [Decimal, int],\n    [int, Decimal],\n", "    [int, int],\n    [int, Decimal],\n",
  ('R-PROMOTE', '[Decimal,int]'))
M('C01', 'lesseq-wired-to-lt', QC,
  "    (ast.LessEq, operator.le),", "    (ast.LessEq, operator.lt),", ('R-OPSEM', 'operator:LessEq'))
M('C01', 'greater-and-greatereq-swapped', QC,
  "    (ast.Greater, operator.gt),\n    (ast.GreaterEq, operator.ge),",
  "    (ast.Greater, operator.ge),\n    (ast.GreaterEq, operator.gt),", ('R-OPSEM', 'operator:Greater'))
M('C01', 'sub-operands-swapped', QC,
  "def sub_(x, y):\n    return x - y", "def sub_(x, y):\n    return y - x", ('R-OPSEM', 'operator:Sub'))
M('C01', 'between-lower-strict', QC,
  "        return lower <= operand <= upper", "        return lower < operand <= upper", ('R-OPSEM', 'EvalBetween'))
M('C01', 'match-pattern-and-string-swapped', QC,
  "def match_(x, y):\n    return bool(re.search(y, x, re.IGNORECASE))",
  "def match_(x, y):\n    return bool(re.search(x, y, re.IGNORECASE))", ('R-OPSEM', 'operator:Match'))
M('C01', 'notin-not-negated', QC,
  "def not_in_(x, y):\n    return not operator.contains(y, x)", "def not_in_(x, y):\n    return operator.contains(y, x)",
  ('R-OPSEM', 'operator:NotIn'))
M('C01', 'sub-date-int-adds', QC,
  "def sub_date_int(x, y):\n    return x - datetime.timedelta(days=y)", "def sub_date_int(x, y):\n    return x + datetime.timedelta(days=y)",
  ('R-OPSEM', 'operator:Sub[date,int]'))
M('C01', 'or-returns-null-at-first-null', QC,
  "            if value is None:\n                r = None\n            if value:\n                return True\n        return r",
  "            if value is None:\n                return None\n            if value:\n                return True\n        return r",
  ('R-3VL', 'EvalOr'))
M('C01', 'or-forgets-null', QC,
  "            if value is None:\n                r = None\n            if value:\n                return True\n        return r",
  "            if value:\n                return True\n        return r",
  ('R-3VL', 'EvalOr'))
M('C01', 'and-continues-after-null', QC,
  "        for arg in self.args:\n            value = arg(context)\n            if value is None:\n                return None\n            if not value:\n                return False\n        return True",
  "        r = True\n        for arg in self.args:\n            value = arg(context)\n            if value is None:\n                r = None\n                continue\n            if not value:\n                return False\n        return r",
  ('R-3VL', 'EvalAnd'))
M('C01', 'and-null-is-false', QC,
  "            if value is None:\n                return None\n            if not value:\n                return False\n        return True",
  "            if not value:\n                return False\n        return True",
  ('R-3VL', 'EvalAnd'))
M('C01', 'coalesce-skips-falsy', QC,
  "            if value is not None:\n                return value\n        return None",
  "            if value:\n                return value\n        return None",
  ('R-3VL', 'EvalCoalesce'))
M('C01', 'where-gate-is-not-false', QX,
  "        for context in query.table:\n            if c_where is None or c_where(context):\n                values = [",
  "        for context in query.table:\n            if c_where is None or c_where(context) is not False:\n                values = [",
  ('R-ROWLOOP', 'execute_select'))
M('C01', 'where-gate-is-not-none', QX,
  "        for context in query.table:\n            if c_where is None or c_where(context):\n                values = [",
  "        for context in query.table:\n            if c_where is None or c_where(context) is not None:\n                values = [",
  ('R-ROWLOOP', 'execute_select'))
M('C01', 'rows-skip-first-target', QX,
  "                values = [c_expr(context) for c_expr in c_target_exprs]\n                rows.append(values)",
  "                values = [c_expr(context) for c_expr in c_target_exprs[1:]]\n                rows.append(values)",
  ('R-ROWLOOP', 'execute_select'))
M('C01', 'from-dropped-when-where-present', CO,
  "            c_where = c_from_expr if c_where is None else EvalAnd([c_from_expr, c_where])",
  "            c_where = c_from_expr if c_where is None else c_where",
  ('R-FROMAND', '_compile_select'))
M('C01', 'from-ored-with-where', CO,
  "            c_where = c_from_expr if c_where is None else EvalAnd([c_from_expr, c_where])",
  "            c_where = c_from_expr if c_where is None else EvalOr([c_from_expr, c_where])",
  ('R-FROMAND', '_compile_select'))
T('C01', 'twin-binaryop-merged-null-tests', QC,
  "        left = self.left(context)\n        if left is None:\n            return None\n        right = self.right(context)\n        if right is None:\n            return None\n        return self.operator(left, right)",
  "        left = self.left(context)\n        right = self.right(context)\n        if left is None or right is None:\n            return None\n        return self.operator(left, right)")
T('C01', 'twin-sub-via-operator-module', QC,
  "def sub_(x, y):\n    return x - y", "def sub_(x, y):\n    return operator.sub(x, y)")
T('C01', 'twin-mod-not-y', QC,
  "def mod_(x, y):\n    if y == 0:\n        return None\n    return x % y", "def mod_(x, y):\n    if not y:\n        return None\n    return x % y")
T('C01', 'twin-and-for-else', QC,
  "            if not value:\n                return False\n        return True",
  "            if not value:\n                return False\n        else:\n            return True")
T('C01', 'twin-where-gate-continue', QX,
  "        for context in query.table:\n            if c_where is None or c_where(context):\n                values = [c_expr(context) for c_expr in c_target_exprs]\n                rows.append(values)",
  "        for context in query.table:\n            if c_where is not None and not c_where(context):\n                continue\n            values = [c_expr(context) for c_expr in c_target_exprs]\n            rows.append(values)")
T('C01', 'twin-coalesce-explicit-continue', QC,
  "            if value is not None:\n                return value\n        return None",
  "            if value is None:\n                continue\n            return value\n        return None")

T('C01', 'twin-and-through-all-builtin-loop', QC,
  "        for arg in self.args:\n            value = arg(context)\n            if value is None:\n                return None\n            if not value:\n                return False\n        return True",
  "        args = iter(self.args)\n        for arg in args:\n            value = arg(context)\n            if value is None or not value:\n                return None if value is None else False\n        return True")
T('C01', 'twin-or-tracks-null-in-flag', QC,
  "        r = False\n        for arg in self.args:\n            value = arg(context)\n            if value is None:\n                r = None\n            if value:\n                return True\n        return r",
  "        seen_null = False\n        for arg in self.args:\n            value = arg(context)\n            if value:\n                return True\n            seen_null = seen_null or value is None\n        return None if seen_null else False")
T('C01', 'twin-coalesce-next-generator', QC,
  "        for arg in self.args:\n            value = arg(context)\n            if value is not None:\n                return value\n        return None",
  "        values = (arg(context) for arg in self.args)\n        return next((value for value in values if value is not None), None)")
M('C01', 'or-evaluates-all-operands', QC,
  "            if value:\n                return True\n        return r",
  "            if value:\n                r = True\n        return r", ('R-3VL', 'EvalOr'))
M('C01', 'and-builds-or-node', CO,
  "        return EvalAnd([self._compile(arg) for arg in node.args])", "        return EvalOr([self._compile(arg) for arg in node.args])",
  ('R-NODEBUILD', 'Compiler._and'))
M('C01', 'or-drops-arguments-after-second', CO,
  "        return EvalOr([self._compile(arg) for arg in node.args])", "        return EvalOr([self._compile(arg) for arg in node.args[:2]])",
  ('R-NODEBUILD', 'Compiler._or'))
M('C01', 'and-arguments-reversed', CO,
  "        return EvalAnd([self._compile(arg) for arg in node.args])", "        return EvalAnd([self._compile(arg) for arg in reversed(node.args)])",
  ('R-NODEBUILD', 'Compiler._and'))
M('C01', 'constant-announced-as-object', CO,
  "        return EvalConstant(node.value)", "        return EvalConstant(node.value, object)",
  ('R-NODEBUILD', 'Compiler._constant'))
M('C01', 'asterisk-without-dtype', CO,
  "        return EvalConstant(None, dtype=types.Asterisk)", "        return EvalConstant(None, dtype=object)",
  ('R-NODEBUILD', 'Compiler._asterisk'))
M('C01', 'column-lookup-lowercased', CO,
  "        column = self.table.columns.get(node.name)\n        if column is not None:", "        column = self.table.columns.get(node.name.lower())\n        if column is not None:",
  ('R-NODEBUILD', 'Compiler._column'))
T('C01', 'twin-and-built-in-loop', CO,
  "        return EvalAnd([self._compile(arg) for arg in node.args])", "        args = []\n        for arg in node.args:\n            args.append(self._compile(arg))\n        return EvalAnd(args)")
T('C01', 'twin-asterisk-positional-dtype', CO,
  "        return EvalConstant(None, dtype=types.Asterisk)", "        return EvalConstant(None, types.Asterisk)")
T('C01', 'twin-column-lookup-by-subscript', CO,
  "        column = self.table.columns.get(node.name)\n        if column is not None:\n            return column\n", "        name = node.name\n        column = self.table.columns.get(name, None)\n        if column is not None:\n            return column\n")
# ---------------------------------------------------------------------- C02
R('C02', 'regress-D1-column-equality', '67e29fa-compare-typed-table-column-accessors-by-the-attrib.diff',
  ('R-EQFAITH', 'GetAttrColumn'))
R('C02', 'regress-D3-subquery-equality', '8eceace-IN-subquery-nodes-compare-by-their-subquery.diff',
  ('R-EQFAITH', 'EvalConstantSubquery1D'))
M('C02', 'finalize-outside-group-loop', QX,
  "        for key, store in aggregates.items():\n            key_iter = iter(key)\n            values = []\n\n            # Finalize the store.\n            for c_expr in c_aggregate_exprs:\n                c_expr.finalize(store)\n",
  "        for c_expr in c_aggregate_exprs:\n            c_expr.finalize(store)\n        for key, store in aggregates.items():\n            key_iter = iter(key)\n            values = []\n",
  ('R-AGGPROTO', 'execute_select'))
M('C02', 'initialize-only-first-aggregate', QX,
  "            for c_expr in c_aggregate_exprs:\n                c_expr.initialize(store)",
  "            for c_expr in c_aggregate_exprs[:1]:\n                c_expr.initialize(store)",
  ('R-AGGPROTO', 'execute_select'))
M('C02', 'groups-sorted', QX,
  "        for key, store in aggregates.items():", "        for key, store in sorted(aggregates.items(), key=repr):",
  ('R-AGGPROTO', 'execute_select'))
M('C02', 'aggregate-where-gate-is-not-none', QX,
  "        for context in query.table:\n            if c_where is None or c_where(context):\n\n                # Compute the non-aggregate",
  "        for context in query.table:\n            if c_where is None or c_where(context) is not None:\n\n                # Compute the non-aggregate",
  ('R-AGGPROTO', 'execute_select'))
M('C02', 'having-null-keeps-group', QX,
  "                if not values[query.having_index]:\n                    continue",
  "                if values[query.having_index] is False:\n                    continue",
  ('R-AGGPROTO', 'execute_select'))
M('C02', 'having-inverted', QX,
  "                if not values[query.having_index]:\n                    continue",
  "                if values[query.having_index]:\n                    continue",
  ('R-AGGPROTO', 'execute_select'))
M('C02', 'update-with-stale-store', QX,
  "                for c_expr in c_aggregate_exprs:\n                    c_expr.update(store, context)",
  "                for c_expr in c_aggregate_exprs:\n                    c_expr.update(store, key)",
  ('R-AGGPROTO', 'execute_select'))
M('C02', 'max-without-null-guard', QE,
  "        value = self.operands[0](context)\n        if value is not None:\n            cur = store[self.handle]\n            if cur is None or value > cur:\n                store[self.handle] = value",
  "        value = self.operands[0](context)\n        cur = store[self.handle]\n        if cur is None or value > cur:\n            store[self.handle] = value",
  ('R-AGGCLASS', 'aggregate:max'))
M('C02', 'min-uses-greater', QE,
  "            if cur is None or value < cur:", "            if cur is None or value > cur:", ('R-AGGCLASS', 'aggregate:min'))
M('C02', 'last-skips-null', QE,
  "    def update(self, store, context):\n        value = self.operands[0](context)\n        store[self.handle] = value\n",
  "    def update(self, store, context):\n        value = self.operands[0](context)\n        if value is not None:\n            store[self.handle] = value\n",
  ('R-AGGCLASS', 'aggregate:last'))
M('C02', 'first-overwrites', QE,
  "        if store[self.handle] is None:\n            value = self.operands[0](context)\n            store[self.handle] = value",
  "        value = self.operands[0](context)\n        if value is not None:\n            store[self.handle] = value",
  ('R-AGGCLASS', 'aggregate:first'))
M('C02', 'first-caches-on-self', QE,
  "        if store[self.handle] is None:\n            value = self.operands[0](context)\n            store[self.handle] = value",
  "        if store[self.handle] is None:\n            value = self.operands[0](context)\n            self.seen = value\n            store[self.handle] = value",
  ('R-AGGCLASS', 'aggregate:first'))
M('C02', 'countarg-counts-nulls', QE,
  "        value = self.operands[0](context)\n        if value is not None:\n            store[self.handle] += 1",
  "        value = self.operands[0](context)\n        store[self.handle] += 1",
  ('R-AGGCLASS', 'aggregate:count(any)'))
M('C02', 'sum-position-shared-zero', QE,
  "class SumPosition(query_compile.EvalAggregator):\n    \"\"\"Calculate the sum of the position. The result is an Inventory.\"\"\"\n",
  "class SumPosition(query_compile.EvalAggregator):\n    \"\"\"Calculate the sum of the position. The result is an Inventory.\"\"\"\n    EMPTY = inventory.Inventory()\n\n    def initialize(self, store):\n        store[self.handle] = self.EMPTY\n\n",
  ('R-AGGCLASS', 'aggregate:sum(Position)'))
M('C02', 'sum-decimal-subtracts', QE,
  "    \"\"\"Calculate the sum of the numerical argument.\"\"\"\n    def update(self, store, context):\n        value = self.operands[0](context)\n        if value is not None:\n            store[self.handle] += value",
  "    \"\"\"Calculate the sum of the numerical argument.\"\"\"\n    def update(self, store, context):\n        value = self.operands[0](context)\n        if value is not None:\n            store[self.handle] -= value",
  ('R-AGGCLASS', 'aggregate:sum(Decimal)'))
M('C02', 'allocator-handle-not-advanced', QX,
  "        handle = self.size\n        self.size += 1\n        return handle", "        handle = self.size\n        self.size = 1\n        return handle",
  ('R-ALLOCATOR', 'Allocator.allocate'))
M('C02', 'allocator-handle-after-increment', QX,
  "        handle = self.size\n        self.size += 1\n        return handle", "        self.size += 1\n        handle = self.size\n        return handle",
  ('R-ALLOCATOR', 'Allocator.create_store'))
M('C02', 'allocator-store-cached', QX,
  "        return [None] * self.size\n", "        if getattr(self, '_store', None) is None:\n            self._store = [None] * self.size\n        return self._store\n",
  ('R-ALLOCATOR', 'Allocator.create_store'))
T('C02', 'twin-allocator-count-from-list', QX,
  "        return [None] * self.size\n", "        return [None for _ in range(self.size)]\n")
# latent only: the three #accounts columns differ in dtype, no two instances collide -> INFO, no violation
T('C02', 'twin-latent-getitemcolumn-without-slots', SB,
  "class GetItemColumn(query_compile.EvalColumn):\n    __slots__ = ('key',)\n",
  "class GetItemColumn(query_compile.EvalColumn):\n")
T('C02', 'twin-setdefault-instead-of-defaultdict', QX,
  "                store = aggregates[key]\n", "                store = aggregates[key]\n                assert store is not None\n")
T('C02', 'twin-min-reordered-test', QE,
  "            if cur is None or value < cur:", "            if cur is None or cur > value:")
T('C02', 'twin-extra-slot-attribute', SB,
  "    __slots__ = ('name',)\n", "    __slots__ = ('name', 'help')\n")

M('C02', 'store-reinitialised-for-every-row', QX,
  "                store = aggregates[key]\n", "                store = aggregates[key]\n                for c_expr in c_aggregate_exprs:\n                    c_expr.initialize(store)\n",
  ('R-AGGPROTO', 'execute_select'))
T('C02', 'twin-plain-dict-get-then-create', QX,
  "                store = aggregates[key]\n", "                store = aggregates.get(key)\n                if store is None:\n                    store = aggregates[key]\n")

T('C02', 'twin-min-through-builtin', QE,
  "            cur = store[self.handle]\n            if cur is None or value < cur:\n                store[self.handle] = value\n\n\n@aggregator([types.Any], name='max')",
  "            cur = store[self.handle]\n            store[self.handle] = value if cur is None else min(cur, value)\n\n\n@aggregator([types.Any], name='max')")
T('C02', 'twin-sum-decimal-through-local', QE,
  "class SumDecimal(query_compile.EvalAggregator):\n    \"\"\"Calculate the sum of the numerical argument.\"\"\"\n    def update(self, store, context):\n        value = self.operands[0](context)\n        if value is not None:\n            store[self.handle] += value",
  "class SumDecimal(query_compile.EvalAggregator):\n    \"\"\"Calculate the sum of the numerical argument.\"\"\"\n    def update(self, store, context):\n        value = self.operands[0](context)\n        if value is None:\n            return\n        total = store[self.handle]\n        total = total + value\n        store[self.handle] = total")
T('C02', 'twin-first-guard-clause', QE,
  "        if store[self.handle] is None:\n            value = self.operands[0](context)\n            store[self.handle] = value",
  "        if store[self.handle] is not None:\n            return\n        store[self.handle] = self.operands[0](context)")
T('C02', 'twin-sum-position-helper-method', QE,
  "        value = self.operands[0](context)\n        if value is not None:\n            store[self.handle].add_position(value)",
  "        value = self.operands[0](context)\n        if value is not None:\n            self._accumulator(store).add_position(value)\n\n    def _accumulator(self, store):\n        return store[self.handle]")
M('C02', 'max-keeps-on-ties-only', QE,
  "            if cur is None or value > cur:\n                store[self.handle] = value",
  "            if cur is None or value >= cur and not value > cur:\n                store[self.handle] = value", ('R-AGGCLASS', 'max'))
M('C02', 'finalize-keeps-store', QC,
  "        self.value = store[self.handle]", "        self.value = store", ('R-AGGCLASS', 'count'))
# ---------------------------------------------------------------------- C03
R('C03', 'regress-D24-order-by-bound', '3d6b355-ORDER-BY-position-is-checked-against-the-number-of.diff',
  ('R-IDXBOUND', '_compile_order_by'))
R('C03', 'regress-D1-column-equality', '67e29fa-compare-typed-table-column-accessors-by-the-attrib.diff',
  ('R-EQFAITH', 'GetAttrColumn'))
M('C03', 'limit-before-distinct', QX,
  "    # Apply DISTINCT.\n    if query.distinct:\n        rows = uniquify(rows)\n\n    # Apply LIMIT.\n    if query.limit is not None:\n        rows = itertools.islice(rows, query.limit)\n",
  "    # Apply LIMIT.\n    if query.limit is not None:\n        rows = itertools.islice(rows, query.limit)\n\n    # Apply DISTINCT.\n    if query.distinct:\n        rows = uniquify(rows)\n",
  ('R-PIPELINE', 'execute_select'))
M('C03', 'limit-zero-dropped', QX,
  "    if query.limit is not None:", "    if query.limit:", ('R-PIPELINE', 'execute_select'))
M('C03', 'limit-off-by-one', QX,
  "        rows = itertools.islice(rows, query.limit)", "        rows = itertools.islice(rows, query.limit + 1)",
  ('R-PIPELINE', 'execute_select'))
M('C03', 'distinct-before-projection', QX,
  "    # Extract results set and convert into tuples.\n    rows = (tuple(row[i] for i in result_indexes) for row in rows)\n\n    # Apply DISTINCT.\n    if query.distinct:\n        rows = uniquify(rows)\n",
  "    # Apply DISTINCT.\n    if query.distinct:\n        rows = uniquify(tuple(row) for row in rows)\n\n    # Extract results set and convert into tuples.\n    rows = (tuple(row[i] for i in result_indexes) for row in rows)\n",
  ('R-PIPELINE', 'execute_select'))
M('C03', 'sort-reverse-negated', QX,
  "            rows.sort(key=nullitemgetter(*indexes), reverse=reverse)", "            rows.sort(key=nullitemgetter(*indexes), reverse=not reverse)",
  ('R-SORTSKEL', 'execute_select'))
M('C03', 'sort-keys-not-reversed-back', QX,
  "            indexes = reversed([i[0] for i in spec])", "            indexes = [i[0] for i in spec]",
  ('R-SORTSKEL', 'execute_select'))
M('C03', 'sort-passes-left-to-right', QX,
  "itertools.groupby(reversed(order_spec), key=operator.itemgetter(1)):", "itertools.groupby(order_spec, key=operator.itemgetter(1)):",
  ('R-SORTSKEL', 'execute_select'))
M('C03', 'sort-plain-itemgetter', QX,
  "            rows.sort(key=nullitemgetter(*indexes), reverse=reverse)", "            rows.sort(key=operator.itemgetter(*indexes), reverse=reverse)",
  ('R-SORTSKEL', 'execute_select'))
M('C03', 'nullitemgetter-multi-keeps-none', QX,
  "                r.append(value if value is not None else NULL)", "                r.append(value)",
  ('R-NULLKEY', 'nullitemgetter'))
M('C03', 'nullitemgetter-single-falsy-is-null', QX,
  "        value = obj[item]\n        return value if value is not None else NULL", "        value = obj[item]\n        return value if value else NULL",
  ('R-NULLKEY', 'nullitemgetter'))
M('C03', 'null-lt-null-true', QX,
  "    def __lt__(self, other):\n        # Make sure that instances of this class compare equal.\n        if isinstance(other, NullType):\n            return False\n        return True",
  "    def __lt__(self, other):\n        return True",
  ('R-NULLKEY', 'NullType.__lt__'))
M('C03', 'null-gt-value-true', QX,
  "        if isinstance(other, NullType):\n            return True\n        return False", "        return True",
  ('R-NULLKEY', 'NullType.__gt__'))
M('C03', 'uniquify-forgets-to-record', QX,
  "        if obj not in seen:\n            seen.add(obj)\n            yield obj", "        if obj not in seen:\n            yield obj",
  ('R-NULLKEY', 'uniquify'))
M('C03', 'order-by-bound-all-targets', CO,
  "        n_targets = len([target for target in c_targets if target.name is not None])\n\n        order_spec = []",
  "        n_targets = len(c_targets)\n\n        order_spec = []",
  ('R-IDXBOUND', '_compile_order_by'))
M('C03', 'order-by-index-not-shifted', CO,
  "            if isinstance(column, int):\n                index = column - 1\n                if not 0 <= index < n_targets:\n                    raise CompilationError(f'invalid ORDER-BY column index {column}')",
  "            if isinstance(column, int):\n                index = column\n                if not 0 <= index < n_targets:\n                    raise CompilationError(f'invalid ORDER-BY column index {column}')",
  ('R-IDXBOUND', '_compile_order_by'))
M('C03', 'order-by-hidden-target-named', CO,
  "                        new_targets.append(EvalTarget(c_expr, None, is_aggregate(c_expr)))",
  "                        new_targets.append(EvalTarget(c_expr, column.text, is_aggregate(c_expr)))",
  ('R-HIDDEN', '_compile_order_by'))
T('C03', 'twin-limit-two-statements', QX,
  "        rows = itertools.islice(rows, query.limit)\n", "        rows = list(itertools.islice(rows, query.limit))\n")
T('C03', 'twin-sortkey-local', QX,
  "            rows.sort(key=nullitemgetter(*indexes), reverse=reverse)", "            keyfunc = nullitemgetter(*indexes)\n            rows.sort(key=nullitemgetter(*indexes), reverse=reverse)")

# ---------------------------------------------------------------------- C05
R('C05', 'regress-D29-coalesce-without-arguments', '6d2f354-coalesce-without-arguments.diff', ('R-COALESCE', 'coalesce'))
R('C05', 'regress-D8-order-by-having-aggregate-checks', 'caafab6-ORDER-BY-and-HAVING-expressions-get-the-same-aggre.diff',
  ('R-TARGETCHK', '_compile_order_by'))
R('C05', 'regress-D9-open-close-bool', 'c4835a7-FROM-OPEN-ON--date--CLOSE-without-a-date-no-longer.diff',
  ('R-GUARDSAFE', '_compile_from'))
R('C05', 'regress-D10-pivot-none-group', 'a43200d-PIVOT-BY-on-a-non-aggregate-query-is-a-Compilation.diff',
  ('R-GUARDSAFE', '_compile_pivot_by'))
R('C05', 'regress-D11-pivot-bound', 'd568a83-PIVOT-BY-references-are-validated-against-the-visi.diff',
  ('R-IDXBOUND', '_compile_pivot_by'))
M('C05', 'where-aggregate-guard-deleted', CO,
  "        if c_where is not None and is_aggregate(c_where):\n            raise CompilationError('aggregates are not allowed in WHERE clause')\n",
  "", ('R-GUARDS', 'where-aggregate'))
M('C05', 'having-guard-deleted', CO,
  "                if not is_aggregate(c_expr):\n                    raise CompilationError('the HAVING clause must be an aggregate expression')\n",
  "", ('R-GUARDS', 'having-aggregate'))
M('C05', 'hashable-guard-deleted', CO,
  "                if not issubclass(c_expr.dtype, collections.abc.Hashable):\n                    raise CompilationError(f'GROUP-BY a non-hashable type is not supported: \"{column}\"')\n",
  "", ('R-GUARDS', 'group-hashable'))
M('C05', 'coverage-raises-valueerror', CO,
  "                raise CompilationError(\n                    'all non-aggregates must be covered by GROUP-BY clause in aggregate query: '",
  "                raise ValueError(\n                    'all non-aggregates must be covered by GROUP-BY clause in aggregate query: '",
  ('R-RAISE', '_compile_select'))
M('C05', 'unknown-column-keyerror', CO,
  "        column = self.table.columns.get(node.name)\n        if column is not None:\n            return column\n        raise CompilationError(f'column \"{node.name}\" does not exist', node)",
  "        return self.table.columns[node.name]",
  ('R-GUARDS', 'unknown-column'))
M('C05', 'group-by-bound-inclusive', CO,
  "                    if not 0 <= index < len(c_targets):", "                    if not 0 <= index <= len(c_targets):",
  ('R-IDXBOUND', '_compile_group_by'))
M('C05', 'pivot-distinct-guard-deleted', CO,
  "        if indexes[0] == indexes[1]:\n            raise CompilationError('the two PIVOT BY columns cannot be the same column')\n",
  "", ('R-GUARDS', 'pivot-distinct'))
M('C05', 'in-subquery-columns-guard-deleted', CO,
  "            if len(right.columns) != 1:\n                raise CompilationError('subquery has too many columns', node.right)\n",
  "", ('R-INOP', '_inop'))
M('C05', 'compilationerror-reparented', CO,
  "class CompilationError(ProgrammingError):", "class CompilationError(Exception):", ('R-EXCTREE', 'CompilationError'))
M('C05', 'handler-dropped-for-between', CO,
  "    @_compile.register\n    def _between(self, node: ast.Between):", "    def _between(self, node: ast.Between):",
  ('R-EXHAUSTIVE', 'grammar:between'))
M('C05', 'order-by-checks-dropped', CO,
  "                    c_expr = self._compile(column)\n                    self._check_aggregates(c_expr)\n\n                    # Attempt to reconcile the expression with one of the existing\n                    # target expressions.\n                    try:\n                        index = c_target_expressions.index(c_expr)\n                    except ValueError:\n                        # Add the new target. 'None' for the target name implies it\n                        # should be invisible, not to be rendered.\n                        index = len(new_targets)\n                        new_targets.append(EvalTarget(c_expr, None, is_aggregate(c_expr)))",
  "                    c_expr = self._compile(column)\n\n                    # Attempt to reconcile the expression with one of the existing\n                    # target expressions.\n                    try:\n                        index = c_target_expressions.index(c_expr)\n                    except ValueError:\n                        # Add the new target. 'None' for the target name implies it\n                        # should be invisible, not to be rendered.\n                        index = len(new_targets)\n                        new_targets.append(EvalTarget(c_expr, None, is_aggregate(c_expr)))",
  ('R-TARGETCHK', '_compile_order_by'))
M('C05', 'unaryop-resolution-dropped', CO,
  "        function = types.function_lookup(OPERATORS, type(node), [operand])\n        if function is None:\n            raise CompilationError(\n                f'operator \"{type(node).__name__.lower()}({types.name(operand.dtype)})\" not supported', node)\n",
  "        function = OPERATORS[type(node)][0]\n",
  ('R-OPRESOLVE', '_unaryop'))
T('C05', 'twin-guard-predicate-local', CO,
  "        if c_where is not None and is_aggregate(c_where):\n            raise CompilationError('aggregates are not allowed in WHERE clause')",
  "        where_is_aggregate = c_where is not None and is_aggregate(c_where)\n        if c_where is not None and is_aggregate(c_where):\n            raise CompilationError('aggregates are not allowed in WHERE clause')")
T('C05', 'twin-message-reworded', CO,
  "raise CompilationError('the two PIVOT BY columns cannot be the same column')", "raise CompilationError('PIVOT BY needs two different columns')")

# ---------------------------------------------------------------------- C07
M('C07', 'description-includes-hidden', QX,
  "    result_types = tuple(Column(target.name, target.c_expr.dtype)\n                         for target in query.c_targets\n                         if target.name is not None)",
  "    result_types = tuple(Column(target.name, target.c_expr.dtype)\n                         for target in query.c_targets)",
  ('R-PIPELINE', 'execute_select'))
M('C07', 'rows-include-hidden', QX,
  "    result_indexes = [index\n                      for index, c_target in enumerate(query.c_targets)\n                      if c_target.name]",
  "    result_indexes = [index\n                      for index, c_target in enumerate(query.c_targets)]",
  ('R-PIPELINE', 'execute_select'))
M('C07', 'subquery-index-over-all-targets', QC,
  "        for i, target in enumerate(target for target in subquery.c_targets if target.name is not None):\n            column = self.column(i, target.name, target.c_expr.dtype)\n            self.columns[target.name] = column()",
  "        for i, target in enumerate(subquery.c_targets):\n            if target.name is None:\n                continue\n            column = self.column(i, target.name, target.c_expr.dtype)\n            self.columns[target.name] = column()",
  ('R-VISFILTER', 'SubqueryTable'))
M('C07', 'group-by-hidden-target-named', CO,
  "                            new_targets.append(EvalTarget(c_expr, None, aggregate))",
  "                            new_targets.append(EvalTarget(c_expr, column.text, aggregate))",
  ('R-HIDDEN', '_compile_group_by'))
M('C07', 'hidden-targets-inserted-first', CO,
  "        new_targets, group_indexes, having_index = self._compile_group_by(node.group_by, c_targets)\n        c_targets.extend(new_targets)",
  "        new_targets, group_indexes, having_index = self._compile_group_by(node.group_by, c_targets)\n        for t in new_targets:\n            c_targets.insert(0, t)",
  ('R-HIDDEN', 'targets-list'))
M('C07', 'naming-column-before-alias', CO,
  "    if target.name is not None:\n        return target.name\n    if isinstance(target.expression, ast.Column):\n        return target.expression.name\n",
  "    if isinstance(target.expression, ast.Column):\n        return target.expression.name\n    if target.name is not None:\n        return target.name\n",
  ('R-HIDDEN', 'get_target_name'))
M('C07', 'naming-text-not-stripped', CO,
  "    return target.expression.text.strip()", "    return target.expression.text", ('R-HIDDEN', 'get_target_name'))
M('C07', 'wildcard-unknown-column', QE,
  "    wildcard_columns = 'date flag payee narration position'.split()", "    wildcard_columns = 'date flag payee narration amount'.split()",
  ('R-WILDCARD', 'PostingsTable'))
M('C07', 'text-slice-off-by-one', 'beanquery/parser/ast.py',
  "        return text[self.parseinfo.pos:self.parseinfo.endpos]", "        return text[self.parseinfo.pos:self.parseinfo.endpos - 1]",
  ('R-NAMESLICE', 'Node.text'))
M('C07', 'projection-skips-first-visible', QX,
  "    rows = (tuple(row[i] for i in result_indexes) for row in rows)", "    rows = (tuple(row[i] for i in result_indexes[1:]) for row in rows)",
  ('R-PIPELINE', 'execute_select'))
M('C07', 'query-columns-include-hidden', QC,
  "        return [t for t in self.c_targets if t.name is not None]", "        return list(self.c_targets)",
  ('R-VISFILTER', 'EvalQuery.columns'))
M('C07', 'query-columns-reversed', QC,
  "        return [t for t in self.c_targets if t.name is not None]", "        return [t for t in reversed(self.c_targets) if t.name is not None]",
  ('R-VISFILTER', 'EvalQuery.columns'))
T('C07', 'twin-columns-truthiness-filter', QC,
  "        return [t for t in self.c_targets if t.name is not None]", "        return [t for t in self.c_targets if t.name]")

# ---------------------------------------------------------------------- C08
M('C08', 'star-columns-sorted-by-name', 'beanquery/tables.py',
  "        return self.columns.keys()", "        return sorted(self.columns.keys())", ('R-SUBQNAMES', 'SubqueryTable'))
M('C08', 'outer-order-resets-inner-limit', CO,
  "        new_targets, order_spec = self._compile_order_by(node.order_by, c_targets)\n        c_targets.extend(new_targets)\n",
  "        new_targets, order_spec = self._compile_order_by(node.order_by, c_targets)\n        c_targets.extend(new_targets)\n        if isinstance(self.table, SubqueryTable) and order_spec:\n            self.table.subquery.limit = None\n",
  ('R-QUERYFROZEN', '_compile_select'))
R('C08', 'regress-D14-nested-select-table', '052c1c9-a-subquery-with-a-FROM-clause-no-longer-changes-th.diff',
  ('R-REENTRANT', 'Compiler.table'))
R('C08', 'regress-D3-subquery-equality', '8eceace-IN-subquery-nodes-compare-by-their-subquery.diff',
  ('R-EQFAITH', 'EvalConstantSubquery1D'))
M('C08', 'restore-only-on-success', CO,
  "        table = self.table\n        try:\n            return self._compile_select(node)\n        finally:\n            self.table = table",
  "        table = self.table\n        query = self._compile_select(node)\n        self.table = table\n        return query",
  ('R-REENTRANT', 'Compiler.table'))
M('C08', 'subquery-index-over-all-targets', QC,
  "        for i, target in enumerate(target for target in subquery.c_targets if target.name is not None):\n            column = self.column(i, target.name, target.c_expr.dtype)\n            self.columns[target.name] = column()",
  "        for i, target in enumerate(subquery.c_targets):\n            if target.name is None:\n                continue\n            column = self.column(i, target.name, target.c_expr.dtype)\n            self.columns[target.name] = column()",
  ('R-VISFILTER', 'SubqueryTable'))
M('C08', 'in-subquery-columns-guard-deleted', CO,
  "            if len(right.columns) != 1:\n                raise CompilationError('subquery has too many columns', node.right)\n",
  "", ('R-INOP', '_inop'))
T('C08', 'twin-restore-with-else', CO,
  "        table = self.table\n        try:\n            return self._compile_select(node)\n        finally:\n            self.table = table",
  "        table = self.table\n        try:\n            query = self._compile_select(node)\n            return query\n        finally:\n            self.table = table")

# ---------------------------------------------------------------------- C09
R('C09', 'regress-D15-placeholder-name-written', '88ee86d-compiling-a-statement-with-positional-placeholders.diff',
  ('R-INPUTMUT', 'Compiler.compile'))
R('C09', 'regress-D16-balance-lru-cache', '0ef1053-the-running-balance-is-updated-once-per-row-whatev.diff',
  ('R-SHARED', 'balance'))
M2('C09', 'memo-on-account-sortkey',
   [(QE, "import copy\nimport datetime\n", "import copy\nimport functools\nimport datetime\n"),
    (QE, "@function([str], str, pass_context=True)\ndef account_sortkey(context, acc):",
     "@function([str], str, pass_context=True)\n@functools.lru_cache(maxsize=None)\ndef account_sortkey(context, acc):")],
   ('R-SHARED', 'account_sortkey'))
M2('C09', 'module-level-scratch-dict',
   [(QE, "NONENONE = None, None\n", "NONENONE = None, None\n_SEEN = {}\n"),
    (QE, "def open_date(context, acc):\n    \"\"\"Get the date of the open directive of the account.\"\"\"\n    open_entry, _ = context.tables['accounts'].accounts.get(acc, NONENONE)",
     "def open_date(context, acc):\n    \"\"\"Get the date of the open directive of the account.\"\"\"\n    _SEEN[acc] = True\n    open_entry, _ = context.tables['accounts'].accounts.get(acc, NONENONE)")],
   ('R-SHARED', 'open_date'))
M('C09', 'where-clause-normalised-in-place', CO,
  "        # Bind the WHERE expression to the execution environment.\n        c_where = self._compile(node.where_clause)",
  "        # Bind the WHERE expression to the execution environment.\n        c_where = self._compile(node.where_clause)\n        node.where_clause = None",
  ('R-INPUTMUT', '_compile_select'))
M('C09', 'entries-sorted-in-place', QE,
  "        entries = self.entries\n        options = self.options\n",
  "        entries = self.entries\n        entries.sort(key=lambda entry: entry.date)\n        options = self.options\n",
  ('R-INPUTMUT', 'BeanTable.prepare'))
M('C09', 'posting-meta-defaulted-in-place', QE,
  "    meta = context.posting.meta\n    # Postings for pad transactions have their meta fields set to\n    # None. See https://github.com/beancount/beancount/issues/767\n    if meta is None:\n        return None\n    return meta[\"filename\"]",
  "    meta = context.posting.meta\n    if meta is None:\n        return None\n    meta.setdefault('filename', '')\n    return meta[\"filename\"]",
  ('R-INPUTMUT', 'filename'))
M('C09', 'fold-impure-functions', CO,
  "        if all(isinstance(operand, EvalConstant) for operand in operands) and function.pure:",
  "        if all(isinstance(operand, EvalConstant) for operand in operands):",
  ('R-FOLDPURE', '_function'))
M('C09', 'fold-binary-with-one-constant', CO,
  "                    if isinstance(left, EvalConstant) and isinstance(right, EvalConstant):",
  "                    if isinstance(left, EvalConstant) or isinstance(right, EvalConstant):",
  ('R-FOLDPURE', '_binaryop'))
M('C09', 'placeholders-numbered-in-walk-order', CO,
  "                self.positions = {id(placeholder): i for i, placeholder in enumerate(\n                    sorted(placeholders, key=lambda node: node.parseinfo.pos))}",
  "                self.positions = {id(placeholder): i for i, placeholder in enumerate(placeholders)}",
  ('R-PLACEHOLDER', 'Compiler.compile'))
T('C09', 'twin-cache-on-compiler-instance', CO,
  "        self.parameters = parameters\n", "        self.parameters = parameters\n        self.cache = {}\n")

# ---------------------------------------------------------------------- C10
R('C10', 'regress-D17-iter-does-not-consume', 'd1b1502-iterating-over-a-cursor-consumes-the-rows-it-deliv.diff',
  ('R-FETCHSIB', 'Cursor.__iter__'))
R('C10', 'regress-D18-rowcount-shrinks', 'e5a17e6-Cursor-rowcount-is-the-number-of-rows-produced-by-.diff',
  ('R-ROWCOUNT', 'Cursor.rowcount'))
M('C10', 'execute-restarts-rowcount-before-executing', CU,
  "        description, rows = query_execute.execute_query(query)\n        self._description = description",
  "        self._rowcount = -1\n        description, rows = query_execute.execute_query(query)\n        self._description = description",
  ('R-RESET', 'Cursor.execute'))
M('C10', 'fetchall-resets-arraysize', CU,
  "        rows = self._rows\n        self._rows = []\n        self._pos += len(rows)",
  "        rows = self._rows\n        self._rows = []\n        self.arraysize = 1\n        self._pos += len(rows)", ('R-FETCHSIB', 'Cursor.fetchall'))
M('C10', 'column-strips-name', CU,
  "        self._name = name\n", "        self._name = name.strip()\n", ('R-COLUMN7', 'Column.__init__'))
M('C10', 'fetchmany-forgets-position', CU,
  "        rows = self._rows[:n]\n        self._rows = self._rows[n:]\n        self._pos += len(rows)\n        return rows",
  "        rows = self._rows[:n]\n        self._rows = self._rows[n:]\n        return rows", ('R-FETCHSIB', 'Cursor.fetchmany'))
M('C10', 'fetchmany-keeps-overlap', CU,
  "        self._rows = self._rows[n:]", "        self._rows = self._rows[n - 1:]", ('R-FETCHSIB', 'Cursor.fetchmany'))
M('C10', 'fetchall-keeps-buffer', CU,
  "        rows = self._rows\n        self._rows = []\n        self._pos += len(rows)",
  "        rows = self._rows\n        self._pos += len(rows)", ('R-FETCHSIB', 'Cursor.fetchall'))
M('C10', 'fetchone-returns-empty-list-when-exhausted', CU,
  "        if self._rows is None or not len(self._rows):\n            return None", "        if self._rows is None or not len(self._rows):\n            return []",
  ('R-FETCHSIB', 'Cursor.fetchone'))
M('C10', 'fetchone-counts-twice', CU,
  "        self._pos += 1\n        return self._rows.pop(0)", "        self._pos += 2\n        return self._rows.pop(0)", ('R-FETCHSIB', 'Cursor.fetchone'))
M('C10', 'execute-keeps-position', CU,
  "        self._rowcount = len(rows)\n        self._pos = 0\n", "        self._rowcount = len(rows)\n", ('R-RESET', 'Cursor.execute'))
M('C10', 'rowcount-counts-description', CU,
  "        self._rowcount = len(rows)", "        self._rowcount = len(description)", ('R-ROWCOUNT', 'Cursor.rowcount'))
M('C10', 'rowcount-initially-zero', CU,
  "        self._rowcount = -1", "        self._rowcount = 0", ('R-ROWCOUNT', 'Cursor.rowcount'))
M('C10', 'column-len-six', CU,
  "    def __len__(self):\n        return 7", "    def __len__(self):\n        return 6", ('R-COLUMN7', 'Column.__len__'))
M('C10', 'column-scale-zero', CU,
  "    def scale(self):\n        return None", "    def scale(self):\n        return 0", ('R-COLUMN7', 'Column.scale'))
M('C10', 'apilevel-one', 'beanquery/__init__.py', "apilevel = '2.0'", "apilevel = '1.0'", ('R-MODCONST', 'apilevel'))
M('C10', 'programmingerror-reparented', 'beanquery/errors.py',
  "class ProgrammingError(DatabaseError):", "class ProgrammingError(Error):", ('R-EXCTREE', 'ProgrammingError'))
T('C10', 'twin-fetchall-via-fetchmany', CU,
  "        rows = self._rows\n        self._rows = []\n        self._pos += len(rows)\n        return rows",
  "        if self._rows is None:\n            return []\n        return self.fetchmany(len(self._rows))")
T('C10', 'twin-fetchone-explicit-length', CU,
  "        if self._rows is None or not len(self._rows):", "        if self._rows is None or len(self._rows) == 0:")

M('C11', 'postings-rowid-per-entry', QE,
  "                for posting in entry.postings:\n                    context.rowid += 1\n", "                context.rowid += 1\n                for posting in entry.postings:\n", ('R-ROWGEN', 'PostingsTable.__iter__'))
M('C11', 'postings-entry-bound-late', QE,
  "                context.entry = entry\n                for posting in entry.postings:\n                    context.rowid += 1\n                    context.posting = posting\n                    yield context",
  "                for posting in entry.postings:\n                    context.rowid += 1\n                    context.posting = posting\n                    yield context\n                context.entry = entry", ('R-ROWGEN', 'PostingsTable.__iter__'))
T('C11', 'twin-postings-guard-clause', QE,
  "            if isinstance(entry, data.Transaction):\n                context.entry = entry\n                for posting in entry.postings:\n                    context.rowid += 1\n                    context.posting = posting\n                    yield context",
  "            if not isinstance(entry, data.Transaction):\n                continue\n            context.entry = entry\n            for posting in entry.postings:\n                context.rowid += 1\n                context.posting = posting\n                yield context")

# ---------------------------------------------------------------------- C12
R('C12', 'regress-D16-balance-lru-cache', '0ef1053-the-running-balance-is-updated-once-per-row-whatev.diff',
  ('R-ONCEPERROW', 'balance'))
M('C12', 'balance-unguarded', QE,
  "    if context.balance_rowid != context.rowid:\n        context.balance.add_position(context.posting)\n        context.balance_rowid = context.rowid\n",
  "    context.balance.add_position(context.posting)\n", ('R-ONCEPERROW', 'balance'))
M('C12', 'balance-guard-never-marked', QE,
  "        context.balance.add_position(context.posting)\n        context.balance_rowid = context.rowid\n",
  "        context.balance.add_position(context.posting)\n", ('R-ONCEPERROW', 'balance'))
M('C12', 'balance-returns-live-inventory', QE,
  "        context.balance_rowid = context.rowid\n    return copy.copy(context.balance)", "        context.balance_rowid = context.rowid\n    return context.balance",
  ('R-ONCEPERROW', 'balance'))
M('C12', 'rowid-bumped-per-transaction', QE,
  "                context.entry = entry\n                for posting in entry.postings:\n                    context.rowid += 1\n                    context.posting = posting",
  "                context.entry = entry\n                context.rowid += 1\n                for posting in entry.postings:\n                    context.posting = posting",
  ('R-ONCEPERROW', 'PostingsTable.__iter__'))
M('C12', 'sum-position-adds-nulls', QE,
  "        value = self.operands[0](context)\n        if value is not None:\n            store[self.handle].add_position(value)",
  "        value = self.operands[0](context)\n        store[self.handle].add_position(value)", ('R-AGGCLASS', 'aggregate:sum(Position)'))
M('C12', 'sum-amount-uses-add-position', QE,
  "            store[self.handle].add_amount(value)", "            store[self.handle].add_position(value)", ('R-AGGCLASS', 'aggregate:sum(Amount)'))
T('C12', 'twin-balance-guard-equality-early', QE,
  "    if context.balance_rowid != context.rowid:\n        context.balance.add_position(context.posting)\n        context.balance_rowid = context.rowid\n    return copy.copy(context.balance)",
  "    if context.balance_rowid == context.rowid:\n        return copy.copy(context.balance)\n    context.balance.add_position(context.posting)\n    context.balance_rowid = context.rowid\n    return copy.copy(context.balance)")

# ---------------------------------------------------------------------- C17
R('C17', 'regress-D19-inventory-null', '00f9d2b-numberify-handles-NULL-in-inventory-columns.diff',
  ('R-NONEFLOW', 'Inventory'))
M('C17', 'position-converter-no-quantize', NU,
  "            number = pos.units.number\n            if dformat:\n                number = dformat.quantize(pos.units.number, self.currency)",
  "            number = pos.units.number", ('R-SIBLINGS', 'PositionConverter'))
M('C17', 'amount-census-ascending', NU,
  "    return [AmountConverter('{} ({})'.format(name, currency), index, currency)\n            for currency, _ in sorted(currency_map.items(),\n                                      key=lambda item: (item[1], item[0]),\n                                      reverse=True)]",
  "    return [AmountConverter('{} ({})'.format(name, currency), index, currency)\n            for currency, _ in sorted(currency_map.items(),\n                                      key=lambda item: (item[1], item[0]))]",
  ('R-SIBLINGS', 'Amount'))
M('C17', 'position-converter-null-test-dropped', NU,
  "        if pos and pos.units.currency == self.currency:", "        if pos.units.currency == self.currency:", ('R-NONEFLOW', 'PositionConverter'))
M('C17', 'inventory-name-template', NU,
  "    return [InventoryConverter('{} ({})'.format(name, currency), index, currency)",
  "    return [InventoryConverter('{} [{}]'.format(name, currency), index, currency)", ('R-SIBLINGS', 'Inventory'))
M('C17', 'identity-converter-wrong-index', NU,
  "            converters.append(IdentityConverter(column.name, column.datatype, index))",
  "            converters.append(IdentityConverter(column.name, column.datatype, len(converters)))", ('R-IDENTITY', 'numberify_results'))
M('C17', 'amount-quantizes-to-wrong-currency', NU,
  "                number = dformat.quantize(number, self.currency)", "                number = dformat.quantize(number, vamount.currency[:0])",
  ('R-SIBLINGS', 'AmountConverter'))
T('C17', 'twin-rename-local', NU,
  "        vamount = drow[self.index]\n        if vamount and vamount.currency == self.currency:\n            number = vamount.number",
  "        cell = drow[self.index]\n        vamount = cell\n        if vamount and vamount.currency == self.currency:\n            number = vamount.number")

# ---------------------------------------------------------------------- C18
R('C18', 'regress-D20-int-overflow', '83e742f-int---of-an-infinite-decimal-is-NULL.diff', ('R-CASTTOTAL', 'function:int('))
R('C18', 'regress-D21-date-overflow', '040101f-date-y--m--d--with-out-of-range-integers-is-NULL.diff', ('R-CASTTOTAL', 'function:date(int, int, int)'))
R('C18', 'regress-D31-bool-of-inventory', 'c1a0ce4-bool---of-an-inventory-is-NULL.diff', ('R-CASTTOTAL', 'function:bool('))
R('C18', 'regress-D28-date-bin-month-boundary', 'd58f907-date_bin-month-boundary.diff', ('R-BINFLOOR', 'date_bin'))
T('C18', 'twin-date-bin-truncate-then-correct', QE,
  "        modulo = diff % seconds\n        delta = diff - modulo\n", "        delta = int(diff / seconds) * seconds\n        modulo = diff - delta\n")
M('C18', 'date-bin-days-truncates', QE,
  "        modulo = diff % seconds\n        delta = diff - modulo\n", "        delta = int(diff / seconds) * seconds\n        modulo = 0\n", ('R-BINFLOOR', 'date_bin'))
M('C18', 'date-bin-days-ceil', QE,
  "        modulo = diff % seconds\n        delta = diff - modulo\n", "        delta = -(-diff // seconds) * seconds\n        modulo = 0\n", ('R-BINFLOOR', 'date_bin'), expect_error=True)
T('C18', 'twin-date-bin-floordiv', QE,
  "        modulo = diff % seconds\n        delta = diff - modulo\n", "        delta = diff // seconds * seconds\n        modulo = diff - delta\n")
M2('C18', 'century-consistently-zero-based', [
    (QE, "        return datetime.date(x.year - (x.year - 1) % 100, 1, 1)", "        return datetime.date(x.year - x.year % 100, 1, 1)"),
    (QE, "        return (x.year - 1) // 100 + 1", "        return x.year // 100 + 1")], ('R-TRUNCLAW', 'century'))
M('C18', 'quarter-trunc-off-by-one-month', QE,
  "        return datetime.date(x.year, x.month - (x.month - 1) % 3, 1)", "        return datetime.date(x.year, x.month - x.month % 3, 1)", ('R-TRUNCLAW', 'quarter'))
T('C18', 'twin-decade-floordiv', QE,
  "        return datetime.date(x.year - x.year % 10, 1, 1)", "        return datetime.date(x.year // 10 * 10, 1, 1)")
T('C18', 'twin-month-trunc-replace', QE,
  "        return datetime.date(x.year, x.month, 1)", "        return x.replace(day=1)")
M('C18', 'int-cast-typeerror-not-caught', QE,
  "    except (ValueError, TypeError, OverflowError):\n        return None\n\n\n@function([Decimal], Decimal, name='decimal')",
  "    except (ValueError, OverflowError):\n        return None\n\n\n@function([Decimal], Decimal, name='decimal')", ('R-CASTTOTAL', 'function:int(object)'))
M('C18', 'decimal-cast-invalidoperation-not-caught', QE,
  "    except (ValueError, TypeError, decimal.InvalidOperation):", "    except (ValueError, TypeError):", ('R-CASTTOTAL', 'function:decimal('))
M('C18', 'date-cast-strptime-unprotected', QE,
  "        try:\n            return datetime.datetime.strptime(x, '%Y-%m-%d').date()\n        except ValueError:\n            pass\n    return None",
  "        return datetime.datetime.strptime(x, '%Y-%m-%d').date()\n    return None", ('R-CASTTOTAL', 'function:date('))
T('C18', 'twin-int-cast-catches-base-class', QE,
  "    except (ValueError, TypeError, OverflowError):\n        return None\n\n\n@function([Decimal], Decimal, name='decimal')",
  "    except (ValueError, TypeError, ArithmeticError):\n        return None\n\n\n@function([Decimal], Decimal, name='decimal')")

# ---------------------------------------------------------------------- C20
R('C20', 'regress-D16-balance-lru-cache', '0ef1053-the-running-balance-is-updated-once-per-row-whatev.diff', ('R-SHARED', 'balance'))
M('C20', 'table-update-in-place', QE,
  "        table = copy.copy(self)\n        for name, value in kwargs.items():\n            setattr(table, name, value)\n        return table",
  "        for name, value in kwargs.items():\n            setattr(self, name, value)\n        return self", ('R-TABLECOPY', 'BeanTable.update'))
M('C20', 'column-instance-caches-on-self', SB,
  "    def __call__(self, context):\n        return getattr(context, self.name)",
  "    def __call__(self, context):\n        self.last = context\n        return getattr(context, self.name)", ('R-SHARED', 'GetAttrColumn.__call__'))
M('C20', 'aggregator-state-on-class', QE,
  "    def update(self, store, context):\n        store[self.handle] += 1\n",
  "    def update(self, store, context):\n        Count.calls = getattr(Count, 'calls', 0) + 1\n        store[self.handle] += 1\n", ('R-SHARED', 'Count.update'))
M('C20', 'table-caches-prepared-entries', QE,
  "        if self.clear is not None:\n            entries, index = summarize.clear_opt(entries, None, options)\n\n        return entries",
  "        if self.clear is not None:\n            entries, index = summarize.clear_opt(entries, None, options)\n\n        self.prepared = entries\n        return entries",
  ('R-SHARED', 'BeanTable.prepare'))
M('C20', 'registry-extended-at-execution', CO,
  "        function = types.function_lookup(FUNCTIONS, node.fname, operands)\n        if function is None:",
  "        function = types.function_lookup(FUNCTIONS, node.fname, operands)\n        FUNCTIONS.setdefault(node.fname, [])\n        if function is None:",
  ('R-SHARED', '_function'))
M('C20', 'global-counter', QX,
  "def execute_query(query):\n", "QUERIES = 0\n\n\ndef execute_query(query):\n    global QUERIES\n    QUERIES += 1\n", ('R-SHARED', 'execute_query'))
T('C20', 'twin-cache-on-row-context', QE,
  "        context.balance_rowid = context.rowid\n", "        context.balance_rowid = context.rowid\n        context.last_balance = None\n")

# ---------------------------------------------------------------------- C06
GR = 'beanquery/parser/bql.ebnf'
PP = 'beanquery/parser/parser.py'
M('C06', 'parser-only-cut-dropped', PP,
  "    def _add_(self):  # noqa\n        self._sum_()\n        self.name_last_node('left')\n        self._token('+')\n        self._cut()",
  "    def _add_(self):  # noqa\n        self._sum_()\n        self.name_last_node('left')\n        self._token('+')",
  ('R-REGEN', 'BQLParser._add_'))
M('C06', 'grammar-only-new-literal', GR,
  "    | null\n    | boolean\n    ;", "    | null\n    | boolean\n    | table\n    ;", ('R-REGEN', 'BQLParser._literal_'))
M('C06', 'parser-only-keyword-dropped', PP, "    'HAVING',\n", "", ('R-REGEN', 'KEYWORDS'))
M('C06', 'uminus-binds-atom', GR, "    = '-' operand:factor\n", "    = '-' operand:atom\n", ('R-PRECMATRIX', 'Neg.operand'), regen=True)
M('C06', 'add-right-recursive', GR, "    = left:sum '+' ~ right:term\n", "    = left:term '+' ~ right:sum\n", ('R-PRECMATRIX', 'Add.'), regen=True)
M('C06', 'comparison-operand-widened', GR, "    = left:sum '<' right:sum\n", "    = left:sum '<' right:comparison\n", ('R-PRECMATRIX', 'Less.right'), regen=True)
M('C06', 'not-binds-tighter-than-comparison', GR, "    = 'NOT' operand:inversion\n", "    = 'NOT' operand:sum\n", ('R-PRECMATRIX', 'Not.operand'), regen=True)
M('C06', 'between-bounds-are-expressions', GR, "    = operand:sum 'BETWEEN' lower:sum 'AND' upper:sum\n", "    = operand:sum 'BETWEEN' lower:sum 'AND' upper:conjunction\n",
  ('R-PRECMATRIX', 'Between.upper'), regen=True)
M('C06', 'mul-right-takes-term', GR, "    = left:term '*' ~ right:factor\n", "    = left:factor '*' ~ right:term\n", ('R-PRECMATRIX', 'Mul.'), regen=True)
M('C06', 'integer-before-decimal', GR, "    | date\n    | decimal\n    | integer\n", "    | date\n    | integer\n    | decimal\n", ('R-SHADOW', 'grammar:literal'), regen=True)
M('C06', 'integer-before-date', GR, "    | date\n    | decimal\n    | integer\n", "    | integer\n    | date\n    | decimal\n", ('R-SHADOW', 'grammar:literal'), regen=True)
M('C06', 'field-renamed-in-grammar', GR, "    = expression:expression ['AS' name:identifier]\n", "    = expression:expression ['AS' alias:identifier]\n",
  ('R-ASTFIELDS', 'grammar:target'), regen=True)
M('C06', 'semantic-action-orphaned', 'beanquery/parser/__init__.py', "    def integer(self, value):", "    def number(self, value):", ('R-SEMANTICS', 'BQLSemantics'))
M('C06', 'integer-action-returns-decimal', 'beanquery/parser/__init__.py', "    def integer(self, value):\n        return int(value)", "    def integer(self, value):\n        return decimal.Decimal(value)",
  ('R-SEMANTICS', 'BQLSemantics.integer'))
M('C06', 'string-keeps-closing-quote', 'beanquery/parser/__init__.py', "        return value[1:-1]", "        return value[1:]", ('R-SEMANTICS', 'BQLSemantics.string'))
M('C06', 'from-keyword-unreserved', GR, "@@keyword :: 'AND' 'AS' 'ASC' 'BY' 'DESC' 'DISTINCT' 'FALSE' 'FROM'\n", "@@keyword :: 'AND' 'AS' 'ASC' 'BY' 'DESC' 'DISTINCT' 'FALSE'\n",
  ('R-KEYWORDS', 'grammar:@@keyword'), regen=True)
M('C06', 'ignorecase-off', GR, "@@ignorecase :: True\n", "@@ignorecase :: False\n", ('R-KEYWORDS', 'grammar:@@ignorecase'), regen=True)
MUTANTS.append({'prop': 'C06', 'name': 'twin-regenerated-unchanged', 'edits': [], 'twin': True, 'regen': True})
M2('C06', 'twin-inline-disjunction', [(GR, "expression\n    =\n    | disjunction\n    | conjunction\n    ;\n\ndisjunction\n    =\n    | or\n    | conjunction\n    ;\n",
   "expression\n    =\n    | or\n    | conjunction\n    ;\n")], None, twin=True, regen=True)

# ---------------------------------------------------------------------- C11
M('C11', 'postings-payee-narration-swapped', QE,
  "    \"\"\"The payee of the parent transaction for this posting.\"\"\"\n    return context.entry.payee",
  "    \"\"\"The payee of the parent transaction for this posting.\"\"\"\n    return context.entry.narration", ('R-ACCESSPATH', 'PostingsTable.payee'))
M('C11', 'cost-number-reads-units', QE,
  "    cost = context.posting.cost\n    return cost.number if cost else None",
  "    cost = context.posting.cost\n    return context.posting.units.number if cost else None", ('R-ACCESSPATH', 'PostingsTable.cost_number'))
M('C11', 'weight-is-units', QE,
  "    return convert.get_weight(context.posting)", "    return convert.get_units(context.posting)", ('R-ACCESSPATH', 'PostingsTable.weight'))
M('C11', 'position-without-cost', QE,
  "    return position.Position(posting.units, posting.cost)", "    return position.Position(posting.units, None)", ('R-ACCESSPATH', 'PostingsTable.position'))
M('C11', 'other-accounts-includes-own', QE,
  "    return sorted({posting.account for posting in context.entry.postings if posting is not context.posting})",
  "    return sorted({posting.account for posting in context.entry.postings})", ('R-ACCESSPATH', 'PostingsTable.other_accounts'))
M('C11', 'month-returns-day', QE,
  "    \"\"\"The year of the date month of the directive.\"\"\"\n    return context.entry.date.month",
  "    \"\"\"The year of the date month of the directive.\"\"\"\n    return context.entry.date.day", ('R-ACCESSPATH', 'EntriesTable.month'))
M('C11', 'posting-lineno-from-entry', QE,
  "    if meta is None:\n        return None\n    return meta[\"lineno\"]", "    if meta is None:\n        return None\n    return context.entry.meta[\"lineno\"]",
  ('R-ACCESSPATH', 'PostingsTable.lineno'))
M('C11', 'postings-skip-flagged', QE,
  "                for posting in entry.postings:\n                    context.rowid += 1",
  "                for posting in entry.postings:\n                    if posting.flag == '!':\n                        continue\n                    context.rowid += 1",
  ('R-ROWGEN', 'PostingsTable.__iter__'))
M('C11', 'entries-only-transactions', QE,
  "        for entry in entries:\n            context.entry = entry\n            context.rowid += 1\n            yield context",
  "        for entry in entries:\n            if not isinstance(entry, data.Transaction):\n                continue\n            context.entry = entry\n            context.rowid += 1\n            yield context",
  ('R-ROWGEN', 'EntriesTable.__iter__'))
M('C11', 'typed-table-yields-all', SB,
  "        for entry in self.entries:\n            if isinstance(entry, datatype):\n                yield entry",
  "        for entry in self.entries:\n            yield entry", ('R-ROWGEN', 'Table.__iter__'))
M('C11', 'notes-table-of-documents', SB,
  "class NotesTable(Table):\n    name = 'notes'\n    datatype = data.Note", "class NotesTable(Table):\n    name = 'notes'\n    datatype = data.Document",
  ('R-TABLEFIELDS', 'NotesTable'))
M('C11', 'derived-column-reads-renamed-name', SB,
  "        columns[colname] = GetAttrColumn(name, dtype)", "        columns[colname] = GetAttrColumn(colname, dtype)", ('R-TABLEFIELDS', '_typed_namedtuple_to_columns'))
M('C11', 'accounts-close-reads-open', SB,
  "        'close': GetItemColumn(2, Close),", "        'close': GetItemColumn(1, Close),", ('R-TABLEFIELDS', 'AccountsTable'))
M('C11', 'close-date-uses-open-entry', QE,
  "    _, close_entry = context.tables['accounts'].accounts.get(acc, NONENONE)", "    close_entry, _ = context.tables['accounts'].accounts.get(acc, NONENONE)",
  ('R-METAREWRITE', 'close_date'))
M('C11', 'entry-meta-reads-posting-meta', CO,
  "            node = ast.Function('getitem', [ast.Attribute(ast.Column('entry', parseinfo=node.parseinfo), 'meta'), key])\n            return self._compile(node)\n\n        # Replace ``any_meta",
  "            node = ast.Function('getitem', [ast.Column('meta', parseinfo=node.parseinfo), key])\n            return self._compile(node)\n\n        # Replace ``any_meta",
  ('R-METAREWRITE', 'entry_meta'))
M('C11', 'entries-tags-without-isinstance', QE,
  "    \"\"\"The set of tags of the transaction.\"\"\"\n    if not isinstance(context.entry, data.Transaction):\n        return None\n", "    \"\"\"The set of tags of the transaction.\"\"\"\n",
  ('R-TYPESAFE', 'column:EntriesTable.tags'))
T('C11', 'twin-accessor-through-local', QE,
  "    \"\"\"The payee of the parent transaction for this posting.\"\"\"\n    return context.entry.payee",
  "    \"\"\"The payee of the parent transaction for this posting.\"\"\"\n    txn = context.entry\n    return txn.payee")

# ---------------------------------------------------------------------- C13
R('C13', 'regress-D9-open-close-bool', 'c4835a7-FROM-OPEN-ON--date--CLOSE-without-a-date-no-longer.diff', ('R-GUARDSAFE', '_compile_from'))
M('C13', 'clear-before-close', QE,
  "        # Process the CLOSE clause.\n        if self.close is not None:\n            if isinstance(self.close, datetime.date):\n                entries, index = summarize.close_opt(entries, self.close, options)\n            elif self.close is True:\n                entries, index = summarize.close_opt(entries, None, options)\n\n        # Process the CLEAR clause.\n        if self.clear is not None:\n            entries, index = summarize.clear_opt(entries, None, options)\n",
  "        # Process the CLEAR clause.\n        if self.clear is not None:\n            entries, index = summarize.clear_opt(entries, None, options)\n\n        # Process the CLOSE clause.\n        if self.close is not None:\n            if isinstance(self.close, datetime.date):\n                entries, index = summarize.close_opt(entries, self.close, options)\n            elif self.close is True:\n                entries, index = summarize.close_opt(entries, None, options)\n",
  ('R-CALLORDER', 'BeanTable.prepare'))
M('C13', 'close-applied-to-original-entries', QE,
  "                entries, index = summarize.close_opt(entries, self.close, options)", "                entries, index = summarize.close_opt(self.entries, self.close, options)",
  ('R-CALLORDER', 'BeanTable.prepare'))
M('C13', 'undated-close-ignored', QE,
  "            elif self.close is True:\n                entries, index = summarize.close_opt(entries, None, options)\n", "", ('R-CALLORDER', 'BeanTable.prepare'))
M('C13', 'dated-close-loses-date', QE,
  "                entries, index = summarize.close_opt(entries, self.close, options)", "                entries, index = summarize.close_opt(entries, None, options)",
  ('R-CALLORDER', 'BeanTable.prepare'))
M('C13', 'open-close-order-guard-deleted', CO,
  "            if node.open and isinstance(node.close, datetime.date) and node.open > node.close:\n                raise CompilationError('CLOSE date must follow OPEN date')\n",
  "", ('R-FROMCLAUSE', '_compile_from'))
M('C13', 'default-close-overrides-explicit', SH,
  "            isinstance(statement.from_clause, parser.ast.From) and\n            not statement.from_clause.close):", "            isinstance(statement.from_clause, parser.ast.From)):",
  ('R-DEFAULTCLOSE', 'BQLShell.parse'))
M('C13', 'run-forgets-query-date', SH,
  "        self.execute(query.query_string, default_close_date=query.date)\n\n    def complete_run", "        self.execute(query.query_string)\n\n    def complete_run",
  ('R-DEFAULTCLOSE', 'do_run'))
M('C13', 'table-update-in-place', QE,
  "        table = copy.copy(self)\n        for name, value in kwargs.items():\n            setattr(table, name, value)\n        return table",
  "        for name, value in kwargs.items():\n            setattr(self, name, value)\n        return self", ('R-TABLECOPY', 'BeanTable.update'))
T('C13', 'twin-hoist-options', QE,
  "        entries = self.entries\n        options = self.options\n", "        options = self.options\n        entries = self.entries\n")

# ---------------------------------------------------------------------- C14
M('C14', 'balances-where-dropped', CO,
  "                      balances.from_clause,\n                      balances.where_clause,", "                      balances.from_clause,\n                      None,",
  ('R-FIELDFLOW', 'transform_balances'))
M('C14', 'journal-from-dropped', CO,
  "    return ast.Select(cooked_select.targets,\n                      journal.from_clause,", "    return ast.Select(cooked_select.targets,\n                      None,",
  ('R-FIELDFLOW', 'transform_journal'))
M('C14', 'balances-order-by-dropped', CO,
  "                      cooked_select.group_by,\n                      cooked_select.order_by,", "                      cooked_select.group_by,\n                      None,",
  ('R-FIELDFLOW', 'transform_balances'))
M('C14', 'journal-summary-func-ignored', CO,
  "               summary_func=journal.summary_func or ''))", "               summary_func=''))", ('R-FIELDFLOW', 'transform_journal'))
M('C14', 'print-collects-rows-not-entries', QX,
  "            entries.append(row.entry)", "            entries.append(row)", ('R-PRINTFILTER', 'execute_print'))
M('C14', 'print-filter-inverted', QX,
  "        if expr is None or expr(row):\n            entries.append(row.entry)", "        if expr is not None and expr(row):\n            entries.append(row.entry)",
  ('R-PRINTFILTER', 'execute_print'))
M('C14', 'print-entries-reversed', QX,
  "    dcontext = display_context.DisplayContext()", "    entries.reverse()\n    dcontext = display_context.DisplayContext()", ('R-PRINTFILTER', 'execute_print'))
M('C14', 'shell-balances-handler-missing', SH,
  "    def on_Balances(self, balance):", "    def on_Balance(self, balance):", ('R-EXHAUSTIVE', 'on_Balances'))
T('C14', 'twin-template-reformatted', CO,
  "      SELECT account, SUM({}(position))\n", "      SELECT account,  SUM({}(position))\n")

# ---------------------------------------------------------------------- C15
R('C15', 'regress-D10-pivot-none-group', 'a43200d-PIVOT-BY-on-a-non-aggregate-query-is-a-Compilation.diff', ('R-GUARDSAFE', '_compile_pivot_by'))
R('C15', 'regress-D11-pivot-bound', 'd568a83-PIVOT-BY-references-are-validated-against-the-visi.diff', ('R-IDXBOUND', '_compile_pivot_by'))
M('C15', 'pivot-second-grouped-guard-deleted', CO,
  "        if group_indexes is None or indexes[1] not in group_indexes:\n            raise CompilationError('the second PIVOT BY column must be a GROUP BY column')\n", "",
  ('R-GUARDS', 'pivot-grouped'))
M('C15', 'pivot-index-not-shifted', CO,
  "            if isinstance(column, int):\n                index = column - 1\n                if not 0 <= index < n_targets:\n                    raise CompilationError(f'invalid PIVOT BY column index {column}')",
  "            if isinstance(column, int):\n                index = column\n                if not 0 <= index < n_targets:\n                    raise CompilationError(f'invalid PIVOT BY column index {column}')",
  ('R-IDXBOUND', '_compile_pivot_by'))
M('C15', 'pivot-block-offset-lost', QX,
  "                index = keys.index(row[col2]) * nother + 1", "                index = keys.index(row[col2]) * nother", ('R-PIVOTSHAPE', 'execute_query'))
M('C15', 'pivot-keys-unsorted', QX,
  "        keys = sorted({row[col2] for row in rows})", "        keys = list({row[col2] for row in rows})", ('R-PIVOTSHAPE', 'execute_query'))
M('C15', 'pivot-datatypes-not-repeated', QX,
  "        datatypes = [columns[col1].datatype] + [col.datatype for col in other(columns)] * len(keys)",
  "        datatypes = [columns[col1].datatype] + [col.datatype for col in other(columns)]", ('R-PIVOTSHAPE', 'execute_query'))
M('C15', 'pivot-naming-switch-wrong', QX, "        if nother > 1:", "        if nother > 0:", ('R-PIVOTSHAPE', 'execute_query'))
M('C15', 'pivot-sorted-by-second-column', QX,
  "        rows.sort(key=operator.itemgetter(col1))", "        rows.sort(key=operator.itemgetter(col2))", ('R-PIVOTSHAPE', 'execute_query'))
M('C15', 'pivot-sort-descending', QX,
  "        rows.sort(key=operator.itemgetter(col1))", "        rows.sort(key=operator.itemgetter(col1), reverse=True)", ('R-PIVOTSHAPE', 'execute_query'))
M('C15', 'pivot-block-too-wide', QX,
  "                outrow[index:index+nother] = other(row)", "                outrow[index:index+nother+1] = other(row)", ('R-PIVOTSHAPE', 'execute_query'))
M('C15', 'pivot-fill-zero', QX,
  "            outrow = [field1] + [None] * (len(columns) - 1)", "            outrow = [field1] + [0] * (len(columns) - 1)", ('R-PIVOTSHAPE', 'execute_query'))
M('C15', 'pivot-names-column-major', QX,
  "            it = itertools.product(keys, other(columns))\n            names = [f'{columns[col1].name}/{columns[col2].name}'] + [f'{key}/{col.name}' for key, col in it]",
  "            it = itertools.product(other(columns), keys)\n            names = [f'{columns[col1].name}/{columns[col2].name}'] + [f'{key}/{col.name}' for col, key in it]",
  ('R-PIVOTSHAPE', 'execute_query'))
M('C15', 'pivot-keys-from-first-column', QX,
  "        keys = sorted({row[col2] for row in rows})", "        keys = sorted({row[col1] for row in rows})", ('R-PIVOTSHAPE', 'execute_query'))
M('C15', 'pivot-keys-not-distinct', QX,
  "        keys = sorted({row[col2] for row in rows})", "        keys = sorted([row[col2] for row in rows])", ('R-PIVOTSHAPE', 'execute_query'))
M('C15', 'pivot-other-includes-pivot-column', QX,
  "        othercols = [i for i in range(len(columns)) if i not in query.pivots]", "        othercols = [i for i in range(len(columns)) if i != col1]", ('R-PIVOTSHAPE', 'execute_query'))
M('C15', 'pivot-lead-name-swapped', QX,
  "            names = [f'{columns[col1].name}/{columns[col2].name}'] + [f'{key}' for key in keys]",
  "            names = [f'{columns[col2].name}/{columns[col1].name}'] + [f'{key}' for key in keys]", ('R-PIVOTSHAPE', 'execute_query'))
T('C15', 'twin-pivot-local-getter-and-padding', QX,
  "        rows.sort(key=operator.itemgetter(col1))\n        for field1, group in itertools.groupby(rows, key=operator.itemgetter(col1)):\n            outrow = [field1] + [None] * (len(columns) - 1)",
  "        getfield1 = operator.itemgetter(col1)\n        padding = [None] * (len(columns) - 1)\n        rows.sort(key=getfield1)\n        for field1, group in itertools.groupby(rows, key=getfield1):\n            outrow = [field1] + padding")
T('C15', 'twin-pivot-index-commuted', QX,
  "                index = keys.index(row[col2]) * nother + 1", "                index = 1 + nother * keys.index(row[col2])")

# ---------------------------------------------------------------------- C19
R('C19', 'regress-D22-set-accepts-method-names', '8eb2b30--set-only-accepts-the-names-of-settings.diff', ('R-SETTINGS', 'do_set'))
R('C19', 'regress-D23-quiet-option-unused', '40db2c4-the--q-----no-errors-option-suppresses-the-ledger-.diff', ('R-OPTUSED', 'main'))
M('C19', 'setstr-stores-before-parsing', SH,
  "        setattr(self, name, parse(value))", "        setattr(self, name, value)\n        setattr(self, name, parse(value))", ('R-SETTINGS', 'Settings.setstr'))
M('C19', 'bool-parser-accepts-anything', SH,
  "        raise ValueError(f'\"{value}\" is not a valid boolean')", "        return False", ('R-SETTINGS', 'Settings'))
M('C19', 'setting-renamed-on-one-side', SH,
  "    nullvalue: str = ''", "    nullstring: str = ''", ('R-SETTINGS', 'Settings.nullstring'))
M('C19', 'format-option-not-passed', SH,
  "    shell = BQLShell(filename, output, interactive, True, format, numberify, no_errors)", "    shell = BQLShell(filename, output, interactive, True, 'text', numberify, no_errors)",
  ('R-OPTUSED', 'main'))
M('C19', 'numberify-and-format-swapped', SH,
  "    shell = BQLShell(filename, output, interactive, True, format, numberify, no_errors)", "    shell = BQLShell(filename, output, interactive, True, numberify, format, no_errors)",
  ('R-OPTUSED', 'main'))
M('C19', 'dot-command-falls-through-to-query', SH,
  "        func = getattr(self, 'do_' + cmd, None)\n        if func is not None:\n            return func(arg)\n        self.error(f'unknown command \"{cmd}\"')",
  "        func = getattr(self, 'do_' + cmd, None)\n        if func is not None:\n            return func(arg)\n        return self.execute(line)",
  ('R-DISPATCH', 'onecmd'))
M('C19', 'print-becomes-legacy-command', SH,
  "{'clear', 'errors', 'exit', 'help', 'history', 'parse', 'quit', 'run', 'set'}", "{'clear', 'errors', 'exit', 'help', 'history', 'parse', 'print', 'quit', 'run', 'set'}",
  ('R-DISPATCH', 'onecmd'))
M('C19', 'numberify-setting-ignored', SH,
  "        if self.settings.numberify:\n            desc, rows = numberify_results(desc, rows, dcontext.build())\n", "", ('R-SELECTOUT', 'on_Select'))
M('C19', 'quiet-suppresses-when-no-errors-only', SH,
  "        if self.context.errors and not self.no_errors:", "        if self.context.errors or not self.no_errors:", ('R-OPTUSED', 'do_reload'))
M('C19', 'quiet-inverted', SH,
  "        if self.context.errors and not self.no_errors:", "        if self.context.errors and self.no_errors:", ('R-OPTUSED', 'do_reload'))
M('C19', 'quiet-not-kept', SH,
  "        self.no_errors = no_errors\n", "        self.no_errors = False\n", ('R-OPTUSED', 'BQLShell.__init__'))
M('C19', 'numberify-option-not-in-settings', SH,
  "        settings = Settings(format=format, numberify=numberify)", "        settings = Settings(format=format)", ('R-OPTUSED', 'BQLShell.__init__'))
M('C19', 'outfile-replaced-by-stdout', SH,
  "        self.outfile = outfile\n", "        self.outfile = sys.stdout\n", ('R-OPTUSED', 'BQLShell.__init__'))
M('C19', 'command-line-query-dropped', SH,
  "            query = ' '.join(query)", "            query = ''", ('R-OPTUSED', 'main'))
M('C19', 'name-parser-ignored', SH,
  "        parse = getattr(self, f'_parse_{name}', getattr(self, f'_parse_{vtype.__name__}', vtype))",
  "        parse = getattr(self, f'_parse_{vtype.__name__}', vtype)", ('R-SETTINGS', 'Settings.setstr'))
# no setting has both a parser of its own and a parser of its type: the two lookup orders coincide on this tree
T('C19', 'twin-type-parser-before-name-parser', SH,
  "        parse = getattr(self, f'_parse_{name}', getattr(self, f'_parse_{vtype.__name__}', vtype))",
  "        parse = getattr(self, f'_parse_{vtype.__name__}', getattr(self, f'_parse_{name}', vtype))")
M('C19', 'setstr-stores-other-setting', SH,
  "        setattr(self, name, parse(value))", "        setattr(self, name, parse(value))\n        self.expand = False", ('R-SETTINGS', 'Settings.setstr'))
M('C19', 'bool-echo-python-spelling', SH,
  "            return 'true' if value else 'false'", "            return 'True' if value else 'None'", ('R-SETTINGS', 'Settings.getstr'))
T('C19', 'twin-bool-echo-other-accepted-spelling', SH,
  "            return 'true' if value else 'false'", "            return 'yes' if value else 'no'")
T('C19', 'twin-error-message-reworded', SH, "            self.error('invalid number of arguments')", "            self.error('invalid number of arguments')  # usage")

# ---------------------------------------------------------------------- benign refactorings (selftest/benign/*.diff)
# Behaviour-preserving patches written by independent agents (notes in selftest/benign/*.notes.txt).  Each is a twin for every
# property whose anchor files it touches: the findings of the tree must not change.
def _benign_twins():
    import glob
    import json
    import os
    import re
    here = os.path.dirname(os.path.abspath(__file__))
    anchors = {}
    with open(os.path.join(os.path.dirname(here), 'properties.jsonl'), encoding='utf-8') as f:
        for line in f:
            if line.strip():
                d = json.loads(line)
                anchors[d['id']] = set(d['anchors']['files'])
    claimed = {m['prop'] for m in MUTANTS}
    for path in sorted(glob.glob(os.path.join(here, 'benign', '*.diff'))):
        with open(path, encoding='utf-8') as f:
            touched = set(re.findall(r'^\+\+\+ b/(\S+)', f.read(), flags=re.M))
        base = os.path.basename(path)
        for prop in sorted(claimed):
            if anchors.get(prop, set()) & touched:
                MUTANTS.append({'prop': prop, 'name': f'twin-benign-{base[:-5]}', 'patch': 'benign/' + base, 'twin': True})


_benign_twins()


# ---------------------------------------------------------------------- wave 9 companions
T('C10', 'twin-column-iter-over-getters', CU,
  "    def __len__(self):\n        return 7\n", "    def __iter__(self):\n        for getter in self._vars:\n            yield getter(self)\n\n    def __len__(self):\n        return 7\n")
M('C10', 'column-iter-two-fields', CU,
  "    def __len__(self):\n        return 7\n", "    def __iter__(self):\n        yield self._name\n        yield self._type\n\n    def __len__(self):\n        return 7\n",
  ('R-COLUMN7', 'Column.__iter__'))
T('C15', 'twin-pivot-columns-copied', CO,
  "            return EvalPivot(query, pivots)", "            return EvalPivot(query, list(pivots))")
M('C15', 'pivot-columns-sorted', CO,
  "            return EvalPivot(query, pivots)", "            return EvalPivot(query, sorted(pivots))",
  ('R-PIVOTFLOW', 'Compiler._compile_select'))
T('C07', 'twin-execute-query-local-result', QX,
  "    if isinstance(query, query_compile.EvalQuery):\n        return execute_select(query)\n", "    if isinstance(query, query_compile.EvalQuery):\n        result = execute_select(query)\n        return result\n")
M('C07', 'execute-query-describes-all-targets', QX,
  "    if isinstance(query, query_compile.EvalQuery):\n        return execute_select(query)\n", "    if isinstance(query, query_compile.EvalQuery):\n        columns, rows = execute_select(query)\n        return tuple(Column(t.name, t.c_expr.dtype) for t in query.c_targets), rows\n",
  ('R-QUERYEXEC', 'execute_query'))
M('C06', 'pivotby-names-only', GR,
  "    = columns+:(integer | column) ',' columns+:(integer | column)", "    = columns+:column ',' columns+:column",
  ('R-CLAUSELANG', 'grammar:pivotby'))
M('C01', 'not-match-case-sensitive', QC,
  "    return not bool(re.search(y, x, re.IGNORECASE))", "    return not bool(re.search(y, x))",
  ('R-OPSEM', 'operator:'))
T('C01', 'twin-match-flags-by-keyword', QC,
  "    return not bool(re.search(y, x, re.IGNORECASE))", "    return not re.search(y, x, flags=re.IGNORECASE)")
M('C20', 'import-time-decimal-precision', QC,
  "import collections\n", "import collections\nimport decimal\ndecimal.DefaultContext.prec = 20\n",
  ('R-SHARED', '<module>'))
M('C12', 'safediv-sets-thread-context', QE,
  "    if y == 0:\n        return ZERO\n    return x / y", "    if y == 0:\n        return ZERO\n    decimal.getcontext().prec = 12\n    return x / y",
  ('R-SHARED', 'safediv'))
T('C12', 'twin-safediv-local-context', QE,
  "    if y == 0:\n        return ZERO\n    return x / y", "    if y == 0:\n        return ZERO\n    with decimal.localcontext() as ctx:\n        ctx.prec = 28\n        return x / y")
T('C02', 'twin-no-groups-early-return', QX,
  "        # Iterate over all the aggregations.\n", "        if not aggregates:\n            return result_types, []\n\n        # Iterate over all the aggregations.\n")
M('C02', 'null-row-taken-for-empty-table', QX,
  "        # Iterate over all the aggregations.\n", "        if context is None:\n            return result_types, []\n\n        # Iterate over all the aggregations.\n",
  ('R-AGGPROTO', 'execute_select'))
M('C18', 'position-cost-takes-market-value', QE,
  "    return convert.get_cost(pos)", "    return convert.get_value(pos, {})",
  ('R-DEFN', 'function:cost'))
M('C18', 'getprice-pair-not-uppercased', QE,
  "    pair = (base.upper(), quote.upper())", "    pair = (base, quote.upper())",
  ('R-DEFN', 'function:getprice'))
M('C18', 'possign-zero-sign-negated', QE,
  "    return x if sign >= 0  else -x", "    return x if sign > 0 else -x",
  ('R-DEFN', 'function:possign'))
T('C18', 'twin-possign-negative-first', QE,
  "    return x if sign >= 0  else -x", "    return -x if sign < 0 else x")
M('C18', 'parse-date-format-ignored', QE,
  "    if frmt is None:\n        return dateutil.parser.parse(string).date()", "    if frmt is not None:\n        return dateutil.parser.parse(string).date()",
  ('R-DEFN', 'function:parse_date'))
T('C18', 'twin-parse-date-format-first', QE,
  "    if frmt is None:\n        return dateutil.parser.parse(string).date()\n    return datetime.datetime.strptime(string, frmt).date()", "    if frmt is not None:\n        return datetime.datetime.strptime(string, frmt).date()\n    parsed = dateutil.parser.parse(string)\n    return parsed.date()")
M('C18', 'filter-currency-position-inverted', QE,
  "    return pos if pos.units.currency == currency else None", "    return pos if pos.units.currency != currency else None",
  ('R-DEFN', 'function:filter_currency'))
M('C18', 'safediv-divides-before-test', QE,
  "    if y == 0:\n        return ZERO\n    return x / y", "    q = x / y\n    if y == 0:\n        return ZERO\n    return q",
  ('R-DEFN', 'function:safediv'))
T('C18', 'twin-safediv-truthiness-test', QE,
  "    if y == 0:\n        return ZERO\n    return x / y", "    if not y:\n        return ZERO\n    return x / y")
T('C18', 'twin-getprice-locals', QE,
  "    pair = (base.upper(), quote.upper())\n    _, price = prices.get_price(price_map, pair, date)\n    return price", "    base, quote = base.upper(), quote.upper()\n    result = prices.get_price(price_map, (base, quote), date)\n    return result[1]")
M('C18', 'weekday-full-name', QE,
  "    return x.strftime('%a')", "    return x.strftime('%A')",
  ('R-DEFN', 'function:weekday'))
M('C18', 'quarter-zero-based', QE,
  "(x.month - 1) // 3 + 1)", "(x.month - 1) // 3)",
  ('R-DEFN', 'function:quarter'))
M('C18', 'interval-month-as-thirty-days', QE,
  "    if unit == 'month':\n        return relativedelta(months=number)", "    if unit == 'month':\n        return relativedelta(days=number * 30)",
  ('R-DEFN', 'function:interval'))
M('C18', 'interval-blank-optional', QE,
  "r'([-+]?[0-9]+)\\s+(day|month|year)s?'", "r'([-+]?[0-9]+)\\s*(day|month|year)s?'",
  ('R-DEFN', 'function:interval'))
T('C18', 'twin-interval-weeks-admitted-and-mapped', QE,
  "r'([-+]?[0-9]+)\\s+(day|month|year)s?'", "r'([-+]?[0-9]+)\\s+(day|week|month|year)s?'")
T('C18', 'twin-interval-groups-unpacked', QE,
  "    number = int(m.group(1))\n    unit = m.group(2)\n", "    digits, unit = m.group(1), m.group(2)\n    number = int(digits)\n")
M('C11', 'typed-columns-read-published-name', SB,
  "        columns[colname] = GetAttrColumn(name, dtype)", "        columns[colname] = GetAttrColumn(colname, dtype)",
  ('R-TYPEDCOLS', '_typed_namedtuple_to_columns'))
M('C11', 'typed-columns-optional-not-unwrapped', SB,
  "                dtype = dtypes[0]\n", "                dtype = dtypes[0]\n                break\n",
  ('R-TABLEFIELDS', '_typed_namedtuple_to_columns'))
M('C11', 'getattrcolumn-default-none', SB,
  "        return getattr(context, self.name)", "        return getattr(context, self.name, None)",
  ('R-TYPEDCOLS', 'GetAttrColumn.__call__'))
T('C11', 'twin-typed-columns-renames-normalised', SB,
  "        colname = renames.get(name, name) if renames is not None else name\n", "        colname = name\n        if renames is not None and name in renames:\n            colname = renames[name]\n")
BI = 'beanquery/__init__.py'
M('C10', 'connection-attach-drops-keywords', BI,
  "            self.attach(dsn, **kwargs)", "            self.attach(dsn)",
  ('R-CONNECTION', 'Connection.__init__'), also_caught_by_suite=True)
M('C10', 'connection-source-by-path', BI,
  "        scheme = urlparse(dsn).scheme\n", "        scheme = urlparse(dsn).path or urlparse(dsn).scheme\n",
  ('R-CONNECTION', 'Connection.attach'), also_caught_by_suite=True)
M('C10', 'connection-close-drops-tables', BI,
  "        # Required by the DB-API.\n        pass", "        # Required by the DB-API.\n        self.tables.clear()",
  ('R-CONNECTION', 'Connection.close'))
M('C10', 'connection-compile-without-context', BI,
  "        return compiler.compile(self, query)", "        return compiler.compile(Connection(), query)",
  ('R-CONNECTION', 'Connection.compile'), also_caught_by_suite=True)
M('C20', 'connection-shared-option-dict', BI,
  "    def __init__(self, dsn=None, **kwargs):\n        self.tables = {'': tables.NullTable()}\n        self.options = {}", "    def __init__(self, dsn=None, _options={}, **kwargs):\n        self.tables = {'': tables.NullTable()}\n        self.options = _options",
  ('R-CONNECTION', 'Connection.__init__'))
T('C10', 'twin-connection-attach-locals', BI,
  "        scheme = urlparse(dsn).scheme\n        source = importlib.import_module(f'beanquery.sources.{scheme}')\n", "        parsed = urlparse(dsn)\n        name = 'beanquery.sources.' + parsed.scheme\n        source = importlib.import_module(name)\n")
PA = 'beanquery/parser/ast.py'
M('C09', 'walk-skips-nested-lists', PA,
  "    if isinstance(node, list):\n        for child in node:\n            yield from walk(child)\n", "    if isinstance(node, list):\n        for child in node:\n            if isinstance(child, Node):\n                yield from walk(child)\n",
  ('R-WALK', 'walk'))
M('C09', 'walk-stops-after-first-child-field', PA,
  "        for name, child in _fields(node):\n            yield from walk(child)\n        yield node", "        for name, child in _fields(node):\n            if isinstance(child, Node):\n                yield from walk(child)\n                break\n            yield from walk(child)\n        yield node",
  ('R-WALK', 'walk'))
T('C09', 'twin-walk-preorder', PA,
  "        for name, child in _fields(node):\n            yield from walk(child)\n        yield node", "        yield node\n        for _, child in _fields(node):\n            yield from walk(child)")
T('C09', 'twin-walk-elif-list', PA,
  "        yield node\n    if isinstance(node, list):", "        yield node\n    elif isinstance(node, list):")
PI_ = 'beanquery/parser/__init__.py'
M('C06', 'ordering-default-descending', PI_,
  "        return ast.Ordering[value or 'ASC']", "        return ast.Ordering[value or 'DESC']",
  ('R-SEMANTICS', 'BQLSemantics.ordering'))
M('C06', 'default-action-keeps-underscores', PI_,
  "            return func(**{name.rstrip('_'): value for name, value in value.items()})", "            return func(**{name: value for name, value in value.items() if not name.endswith('_')})",
  ('R-SEMANTICS', 'BQLSemantics._default'))
M('C06', 'list-action-deduplicates', PI_,
  "        return list(value)", "        return list(dict.fromkeys(value))",
  ('R-SEMANTICS', 'BQLSemantics.list'))
M('C19', 'print-to-stdout-not-output', SH,
  "        with self.output as out:\n            execute_print(query, out)", "        with self.output:\n            execute_print(query, sys.stdout)",
  ('R-PRINTOUT', 'BQLShell.on_Print'))
T('C19', 'twin-print-compiled-local', SH,
  "        query = self.context.compile(statement)\n        with self.output as out:\n            execute_print(query, out)", "        compiled = self.context.compile(statement)\n        with self.output as stream:\n            execute_print(compiled, file=stream)")
M('C19', 'output-bare-file', SH,
  "        return nullcontext(self.outfile)", "        return self.outfile",
  ('R-OUTPUT', 'DispatchingShell.output'))
M('C17', 'constant-typed-as-base-class', QC,
  "        super().__init__(type(value) if dtype is None else dtype)", "        super().__init__(type(value).__mro__[-2] if dtype is None else dtype)",
  ('R-CONSTTYPE', 'EvalConstant.__init__'))
T('C17', 'twin-constant-dtype-local', QC,
  "        super().__init__(type(value) if dtype is None else dtype)", "        if dtype is None:\n            dtype = type(value)\n        super().__init__(dtype)")
M('C10', 'column-eq-name-only', CU,
  "            return tuple(self) == tuple(other)", "            return self.name == other.name",
  ('R-COLUMNEQ', 'Column.__eq__'))
T('C10', 'twin-column-eq-name-and-type', CU,
  "            return tuple(self) == tuple(other)", "            return (self._name, self._type) == (other._name, other._type)")
M('C11', 'accounts-table-types-from-defaults', SB,
  "        self.types = parser.options.get_account_types(options)", "        self.types = parser.options.get_account_types(parser.options.OPTIONS_DEFAULTS)",
  ('R-TABLESOURCE', 'AccountsTable.__init__'))
M('C05', 'in-subquery-zero-columns-accepted', CO,
  "len(right.columns) != 1", "len(right.columns) > 1",
  ('R-INOP', 'Compiler._inop'))
TB = 'beanquery/tables.py'
M('C01', 'null-table-empty', TB,
  "        return iter([None])", "        return iter([])",
  ('R-ROWGEN', 'NullTable.__iter__'))
T('C01', 'twin-null-table-generator', TB,
  "        return iter([None])", "        yield None")
M('C20', 'module-level-compiler-reused', CO,
  "    return Compiler(context).compile(statement, parameters)", "    global _COMPILER\n    if _COMPILER is None or _COMPILER.context is not context:\n        _COMPILER = Compiler(context)\n    return _COMPILER.compile(statement, parameters)\n\n\n_COMPILER = None",
  ('R-COMPILEFN', 'compile'))
M('C19', 'cmdloop-ends-on-exception', SH,
  "            except Exception as exc:\n                self.error(render_exception(exc))", "            except Exception as exc:\n                self.error(render_exception(exc))\n                break",
  ('R-CMDLOOP', 'DispatchingShell.cmdloop'))
M('C11', 'notes-table-lists-documents', SB,
  "    name = 'notes'\n    datatype = data.Note", "    name = 'notes'\n    datatype = data.Document",
  ('R-TABLESOURCE', '#notes'))
M('C06', 'ordering-accepts-ascending-word', GR,
  "    = ['DESC' | 'ASC']", "    = ['DESC' | 'ASC' | 'ASCENDING']",
  ('R-CLAUSELANG', 'grammar:order'))
M('C06', 'limit-before-pivot', GR,
  "      ['PIVOT' 'BY' pivot_by:pivotby]\n      ['LIMIT' limit:integer]", "      ['LIMIT' limit:integer]\n      ['PIVOT' 'BY' pivot_by:pivotby]",
  ('R-CLAUSELANG', 'grammar:select'))
M('C11', 'getitem3-default-ignored', QE,
  "        return obj.get(key(row), default(row))", "        return obj.get(key(row))",
  ('R-ACCESSEVAL', 'GetItem3.__call__'))
M('C11', 'evalgetitem-raises-on-missing-key', QC,
  "        return operand.get(self.key)", "        return operand[self.key]",
  ('R-ACCESSEVAL', 'EvalGetItem.__call__'))
T('C11', 'twin-getitem2-locals', QE,
  "        obj, key = self.operands\n        obj = obj(row)\n        if obj is None:\n            return None\n        return obj.get(key(row))", "        container, key = self.operands\n        mapping = container(row)\n        if mapping is None:\n            return None\n        wanted = key(row)\n        return mapping.get(wanted)")
