"""Mutants and benign twins for the checker's self-test (bqsa/battery.py).

Each mutant is a small, realistic edit of beanquery that compiles, keeps the
pinned suite green (validated with tools/validate_mutants.py, results in
selftest/manifest.json) and breaks a property; `expect` names the rule that
must fire and a substring of the construct it must name.  Twins keep the
behaviour and must not change the findings.  `regress/*.diff` re-introduce the
defects repaired by the fix: commits.
"""

MUTANTS = []


def M(prop, name, file, old, new, expect, **kw):
    MUTANTS.append({'prop': prop, 'name': name, 'edits': [{'file': file, 'old': old, 'new': new}],
                    'expect': expect, **kw})


def M2(prop, name, edits, expect, **kw):
    MUTANTS.append({'prop': prop, 'name': name,
                    'edits': [{'file': f, 'old': o, 'new': n} for f, o, n in edits], 'expect': expect, **kw})


def T(prop, name, file, old, new):
    MUTANTS.append({'prop': prop, 'name': name, 'edits': [{'file': file, 'old': old, 'new': new}], 'twin': True})


def R(prop, name, patch, expect):
    MUTANTS.append({'prop': prop, 'name': name, 'patch': 'regress/' + patch, 'expect': expect})


QC = 'beanquery/query_compile.py'
QE = 'beanquery/query_env.py'
QX = 'beanquery/query_execute.py'
CO = 'beanquery/compiler.py'
CU = 'beanquery/cursor.py'
SB = 'beanquery/sources/beancount.py'
NU = 'beanquery/numberify.py'
SH = 'beanquery/shell.py'

# ---------------------------------------------------------------------- C04
R('C04', 'regress-D5-interval-minus-date', 'ff3b2d3-reject-interval---date-at-compile-time.diff',
  ('R-TYPESAFE', 'operator:Sub[relativedelta,date]'))
R('C04', 'regress-D6-sum-bool', '8458139-sum---of-a-boolean-expression-is-an-int.diff',
  ('R-DTYPE', 'aggregate:sum(int)'))
R('C04', 'regress-D26-date-bin-null-stride', 'b091713-date-bin---with-an-invalid-stride-string-is-NULL.diff',
  ('R-TYPESAFE', 'function:date_bin(str, date, date)'))
M('C04', 'date_diff-returns-timedelta', QE,
  "    return (x - y).days\n\n\n@function([datetime.date, int], datetime.date)",
  "    return x - y\n\n\n@function([datetime.date, int], datetime.date)",
  ('R-DTYPE', 'function:date_diff'))
M('C04', 'quarter-declared-int', QE,
  "@function([datetime.date], str)\ndef quarter(x):", "@function([datetime.date], int)\ndef quarter(x):",
  ('R-DTYPE', 'function:quarter'))
M('C04', 'cost_number-returns-cost', QE,
  "    return cost.number if cost else None", "    return cost if cost else None",
  ('R-DTYPE', 'column:PostingsTable.cost_number'))
M('C04', 'mul-int-decimal-declared-int', QC,
  "@binaryop(ast.Mul, [int, Decimal], Decimal)", "@binaryop(ast.Mul, [int, Decimal], int)",
  ('R-DTYPE', 'operator:Mul[int,Decimal]'))
M('C04', 'sub_date_date-without-days', QC,
  "def sub_date_date(x, y):\n    return (x - y).days", "def sub_date_date(x, y):\n    return x - y",
  ('R-DTYPE', 'operator:Sub[date,date]'))
M('C04', 'entries-flag-without-isinstance', QE,
  "    \"\"\"The flag the transaction.\"\"\"\n    if not isinstance(context.entry, data.Transaction):\n        return None\n",
  "    \"\"\"The flag the transaction.\"\"\"\n",
  ('R-TYPESAFE', 'column:EntriesTable.flag'))
M('C04', 'location-without-meta-guard', QE,
  "    if meta is None:\n        return None\n    return '{:s}:{:d}:'.format(meta['filename'], meta['lineno'])",
  "    return '{:s}:{:d}:'.format(meta['filename'], meta['lineno'])",
  ('R-TYPESAFE', 'column:PostingsTable.location'))
M('C04', 'new-overload-length-int', QE,
  "@function([list], int)\n@function([set], int)\n@function([str], int)\ndef length(x):",
  "@function([list], int)\n@function([set], int)\n@function([str], int)\n@function([int], int)\ndef length(x):",
  ('R-TYPESAFE', 'function:length(int)'))
M('C04', 'year-column-returns-date', QE,
  "    return context.entry.date.year", "    return context.entry.date",
  ('R-DTYPE', 'column:EntriesTable.year'))
M('C04', 'sum-decimal-announces-int', QE,
  "class SumDecimal(query_compile.EvalAggregator):\n    \"\"\"Calculate the sum of the numerical argument.\"\"\"\n",
  "class SumDecimal(query_compile.EvalAggregator):\n    \"\"\"Calculate the sum of the numerical argument.\"\"\"\n"
  "    def __init__(self, context, operands):\n        super().__init__(context, operands, int)\n\n",
  ('R-DTYPE', 'aggregate:sum(Decimal)'))
M('C04', 'count-announces-operand-type', QE,
  "    \"\"\"Count the number of non-NULL occurrences of the argument.\"\"\"\n    def __init__(self, context, operands):\n        super().__init__(context, operands, int)",
  "    \"\"\"Count the number of non-NULL occurrences of the argument.\"\"\"\n    def __init__(self, context, operands):\n        super().__init__(context, operands)",
  ('R-DTYPE', 'aggregate:count(any)'))
T('C04', 'twin-reorder-decorators', QE,
  "@function([Decimal, Decimal], Decimal)\n@function([Decimal, int], Decimal)\ndef safediv",
  "@function([Decimal, int], Decimal)\n@function([Decimal, Decimal], Decimal)\ndef safediv")
T('C04', 'twin-date_diff-local', QE,
  "    return (x - y).days\n\n\n@function([datetime.date, int], datetime.date)",
  "    delta = x - y\n    return delta.days\n\n\n@function([datetime.date, int], datetime.date)")
T('C04', 'twin-new-conforming-overload', QE,
  "@function([str], str)\ndef upper(string):",
  "@function([str], str, name='ucase')\n@function([str], str)\ndef upper(string):")

# re-introduced D4 (the reverse patch of 4a58d58 overlaps a later fix)
M('C04', 'regress-D4-interval-sub-declared-date-direct', QC,
  "@binaryop(ast.Sub, [relativedelta, relativedelta], relativedelta)",
  "@binaryop(ast.Sub, [relativedelta, relativedelta], datetime.date)",
  ('R-DTYPE', 'operator:Sub[relativedelta,relativedelta]'))

# ---------------------------------------------------------------------- C01
M('C01', 'binaryop-drop-right-null-test', QC,
  "        right = self.right(context)\n        if right is None:\n            return None\n        return self.operator(left, right)",
  "        right = self.right(context)\n        return self.operator(left, right)",
  ('R-NULLSTRICT', 'EvalBinaryOp.__call__'))
M('C01', 'neg-registered-nullsafe', QC,
  "@unaryop(ast.Neg, [int], int)", "@unaryop(ast.Neg, [int], int, nullsafe=True)",
  ('R-NULLSTRICT', 'operator:Neg[int]'))
M('C01', 'isnull-on-propagating-base', QC,
  "@unaryop(ast.IsNull, [types.Any], bool, nullsafe=True)", "@unaryop(ast.IsNull, [types.Any], bool)",
  ('R-NULLSTRICT', 'operator:IsNull[any]'))
M('C01', 'function-wrapper-no-null-test', QE,
  "                args = [operand(row) for operand in self.operands]\n                for arg in args:\n                    if arg is None:\n                        return None\n",
  "                args = [operand(row) for operand in self.operands]\n",
  ('R-NULLSTRICT', 'Func.__call__'))
M('C01', 'function-wrapper-checks-first-arg-only', QE,
  "                for arg in args:\n                    if arg is None:\n                        return None\n",
  "                if args and args[0] is None:\n                    return None\n",
  ('R-NULLSTRICT', 'Func.__call__'))
M('C01', 'getitem-no-container-null-test', QE,
  "        obj, key = self.operands\n        obj = obj(row)\n        if obj is None:\n            return None\n",
  "        obj, key = self.operands\n        obj = obj(row)\n",
  ('R-NULLSTRICT', 'GetItem2.__call__'))
M('C01', 'between-upper-not-null-tested', QC,
  "        upper = self.upper(context)\n        if upper is None:\n            return None\n",
  "        upper = self.upper(context)\n",
  ('R-NULLSTRICT', 'EvalBetween.__call__'))
M('C01', 'mod-without-zero-test', QC,
  "def mod_(x, y):\n    if y == 0:\n        return None\n    return x % y", "def mod_(x, y):\n    return x % y",
  ('R-DIVGUARD', 'operator:Mod'))
M('C01', 'div-zero-returns-zero', QC,
  "def div_(x, y):\n    if y == 0:\n        return None", "def div_(x, y):\n    if y == 0:\n        return Decimal(0)",
  ('R-DIVGUARD', 'operator:Div'))
M('C01', 'div_int-tests-dividend', QC,
  "def div_int(x, y):\n    if y == 0:", "def div_int(x, y):\n    if x == 0:",
  ('R-DIVGUARD', 'operator:Div[int,int]'))
M('C01', 'mul-int-decimal-announces-int', QC,
  "@binaryop(ast.Mul, [int, Decimal], Decimal)", "@binaryop(ast.Mul, [int, Decimal], int)",
  ('R-PROMOTE', 'operator:Mul[int,Decimal]'))
M('C01', 'div-int-int-announces-int', QC,
  "@binaryop(ast.Div, [int, int], Decimal)", "@binaryop(ast.Div, [int, int], int)",
  ('R-PROMOTE', 'operator:Div[int,int]'))
M('C01', 'comparison-overload-missing', QC,
  "    [int, int],\n    [Decimal, int],\n    [int, Decimal],\n", "    [int, int],\n    [int, Decimal],\n",
  ('R-PROMOTE', '[Decimal,int]'))
M('C01', 'lesseq-wired-to-lt', QC,
  "    (ast.LessEq, operator.le),", "    (ast.LessEq, operator.lt),", ('R-OPSEM', 'operator:LessEq'))
M('C01', 'greater-and-greatereq-swapped', QC,
  "    (ast.Greater, operator.gt),\n    (ast.GreaterEq, operator.ge),",
  "    (ast.Greater, operator.ge),\n    (ast.GreaterEq, operator.gt),", ('R-OPSEM', 'operator:Greater'))
M('C01', 'sub-operands-swapped', QC,
  "def sub_(x, y):\n    return x - y", "def sub_(x, y):\n    return y - x", ('R-OPSEM', 'operator:Sub'))
M('C01', 'between-lower-strict', QC,
  "        return lower <= operand <= upper", "        return lower < operand <= upper", ('R-OPSEM', 'EvalBetween'))
M('C01', 'match-pattern-and-string-swapped', QC,
  "def match_(x, y):\n    return bool(re.search(y, x, re.IGNORECASE))",
  "def match_(x, y):\n    return bool(re.search(x, y, re.IGNORECASE))", ('R-OPSEM', 'operator:Match'))
M('C01', 'notin-not-negated', QC,
  "def not_in_(x, y):\n    return not operator.contains(y, x)", "def not_in_(x, y):\n    return operator.contains(y, x)",
  ('R-OPSEM', 'operator:NotIn'))
M('C01', 'sub-date-int-adds', QC,
  "def sub_date_int(x, y):\n    return x - datetime.timedelta(days=y)", "def sub_date_int(x, y):\n    return x + datetime.timedelta(days=y)",
  ('R-OPSEM', 'operator:Sub[date,int]'))
M('C01', 'or-returns-null-at-first-null', QC,
  "            if value is None:\n                r = None\n            if value:\n                return True\n        return r",
  "            if value is None:\n                return None\n            if value:\n                return True\n        return r",
  ('R-3VL', 'EvalOr'))
M('C01', 'or-forgets-null', QC,
  "            if value is None:\n                r = None\n            if value:\n                return True\n        return r",
  "            if value:\n                return True\n        return r",
  ('R-3VL', 'EvalOr'))
M('C01', 'and-continues-after-null', QC,
  "        for arg in self.args:\n            value = arg(context)\n            if value is None:\n                return None\n            if not value:\n                return False\n        return True",
  "        r = True\n        for arg in self.args:\n            value = arg(context)\n            if value is None:\n                r = None\n                continue\n            if not value:\n                return False\n        return r",
  ('R-3VL', 'EvalAnd'))
M('C01', 'and-null-is-false', QC,
  "            if value is None:\n                return None\n            if not value:\n                return False\n        return True",
  "            if not value:\n                return False\n        return True",
  ('R-3VL', 'EvalAnd'))
M('C01', 'coalesce-skips-falsy', QC,
  "            if value is not None:\n                return value\n        return None",
  "            if value:\n                return value\n        return None",
  ('R-3VL', 'EvalCoalesce'))
M('C01', 'where-gate-is-not-false', QX,
  "        for context in query.table:\n            if c_where is None or c_where(context):\n                values = [",
  "        for context in query.table:\n            if c_where is None or c_where(context) is not False:\n                values = [",
  ('R-ROWLOOP', 'execute_select'))
M('C01', 'where-gate-is-not-none', QX,
  "        for context in query.table:\n            if c_where is None or c_where(context):\n                values = [",
  "        for context in query.table:\n            if c_where is None or c_where(context) is not None:\n                values = [",
  ('R-ROWLOOP', 'execute_select'))
M('C01', 'rows-skip-first-target', QX,
  "                values = [c_expr(context) for c_expr in c_target_exprs]\n                rows.append(values)",
  "                values = [c_expr(context) for c_expr in c_target_exprs[1:]]\n                rows.append(values)",
  ('R-ROWLOOP', 'execute_select'), expect_error=True)
M('C01', 'from-dropped-when-where-present', CO,
  "            c_where = c_from_expr if c_where is None else EvalAnd([c_from_expr, c_where])",
  "            c_where = c_from_expr if c_where is None else c_where",
  ('R-FROMAND', '_compile_select'))
M('C01', 'from-ored-with-where', CO,
  "            c_where = c_from_expr if c_where is None else EvalAnd([c_from_expr, c_where])",
  "            c_where = c_from_expr if c_where is None else EvalOr([c_from_expr, c_where])",
  ('R-FROMAND', '_compile_select'), expect_error=True)
T('C01', 'twin-binaryop-merged-null-tests', QC,
  "        left = self.left(context)\n        if left is None:\n            return None\n        right = self.right(context)\n        if right is None:\n            return None\n        return self.operator(left, right)",
  "        left = self.left(context)\n        right = self.right(context)\n        if left is None or right is None:\n            return None\n        return self.operator(left, right)")
T('C01', 'twin-sub-via-operator-module', QC,
  "def sub_(x, y):\n    return x - y", "def sub_(x, y):\n    return operator.sub(x, y)")
T('C01', 'twin-mod-not-y', QC,
  "def mod_(x, y):\n    if y == 0:\n        return None\n    return x % y", "def mod_(x, y):\n    if not y:\n        return None\n    return x % y")
T('C01', 'twin-and-for-else', QC,
  "            if not value:\n                return False\n        return True",
  "            if not value:\n                return False\n        else:\n            return True")
T('C01', 'twin-where-gate-continue', QX,
  "        for context in query.table:\n            if c_where is None or c_where(context):\n                values = [c_expr(context) for c_expr in c_target_exprs]\n                rows.append(values)",
  "        for context in query.table:\n            if c_where is not None and not c_where(context):\n                continue\n            values = [c_expr(context) for c_expr in c_target_exprs]\n            rows.append(values)")
T('C01', 'twin-coalesce-explicit-continue', QC,
  "            if value is not None:\n                return value\n        return None",
  "            if value is None:\n                continue\n            return value\n        return None")
