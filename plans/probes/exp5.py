import io, sys
from beanquery import shell
out = io.StringIO()
sh = shell.BQLShell('led.beancount', out, False, False)
for cmd in ['.set todict x', '.set getstr', '.set _parse_bool 1', '.set boxed maybe', '.set nosuch 1', '.set boxed true', '.set', '.nosuch', '.set format xml', '.set nullvalue NULL extra']:
    try:
        sh.onecmd(cmd); print('ok  ', cmd)
    except Exception as e:
        print('EXC ', cmd, type(e).__name__, e)
print(out.getvalue())
