import beanquery, datetime, traceback
from beancount import loader
from decimal import Decimal
LEDGER = '''
2020-01-01 open Assets:Bank USD
2020-01-01 open Assets:Cash
2020-01-01 open Expenses:Food
2020-01-01 open Income:Job
2020-01-01 commodity USD
  name: "dollar"

2020-01-05 * "Payee A" "z-narr"
  Assets:Bank  100 USD
  Income:Job  -100 USD

2020-01-06 * "Payee B" "a-narr"
  Assets:Cash  -5 USD
  Expenses:Food  5 USD

2020-01-07 * "Payee C" "m-narr"
  Assets:Cash  -7 USD
  Expenses:Food  7 USD
'''
entries, errors, options = loader.load_string(LEDGER)
conn = beanquery.connect('beancount:', entries=entries, errors=errors, options=options)
def q(s, params=None):
    try:
        c = conn.execute(s, params)
        rows = c.fetchall()
        print('OK ', s, '->', [(d.name, d.datatype.__name__) for d in c.description], rows[:6])
    except Exception as e:
        print('ERR', s, '->', type(e).__mro__[0].__name__, e)

# eq defects
q("SELECT narration FROM #transactions ORDER BY payee DESC")
q("SELECT payee, narration FROM #transactions ORDER BY narration")
q("SELECT account FROM #accounts ORDER BY account DESC")
# type
q("SELECT interval('1 day') - interval('2 day') FROM #")
q("SELECT interval('1 day') - date FROM #postings LIMIT 1")
q("SELECT other_accounts FROM #postings LIMIT 1")
# parse errs
q("SELECT 2020-13-45 FROM #")
q("SELECT " + "9"*5000 + " FROM #")
q("SELECT 'a' ~ '(' FROM #")
q("SELECT splitcomp('a', ',', 4) FROM #")
q("SELECT %s FROM #")
q("SELECT %s, %s FROM #", (1,))
# pivot hidden
q("SELECT account, year, sum(number) GROUP BY account, year, month PIVOT BY 1, 4")
q("SELECT account, sum(number) GROUP BY account, year PIVOT BY account, 3")
# placeholders re-exec
ast = conn.parse("SELECT %s - %s FROM #")
q(ast, (5, 3)); q(ast, (5, 3))
cur = conn.cursor()
try:
    cur.executemany("SELECT %s - %s FROM #", [(1,2),(3,4)]); print('executemany ok', cur.fetchall())
except Exception as e: print('executemany ERR', type(e).__name__, e)
# balance twice with subquery between
q("SELECT balance, account IN (SELECT account FROM #postings WHERE number > 0 and balance IS NOT NULL), balance")
q("SELECT position, balance, balance")
