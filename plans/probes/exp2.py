import beanquery, datetime, traceback, io
from beancount import loader
from beanquery import numberify, query_render
exec(open('exp1.py').read().split("def q(")[0])
def q(s, params=None):
    try:
        c = conn.execute(s, params)
        rows = c.fetchall()
        print('OK ', s[:90], '->', [(d.name, d.datatype.__name__) for d in c.description], rows[:4])
        return c.description, rows
    except Exception as e:
        print('ERR', s[:90], '->', type(e).__name__, str(e)[:100])
r = q("SELECT filter_currency(balance, cost_currency) AS x")
try:
    print(numberify.numberify_results(*r))
except Exception as e: print('numberify ERR', type(e).__name__, e)
# EvalConstantSubquery1D equality
q("SELECT account IN (SELECT account FROM #postings WHERE number>0) AS a, account ORDER BY account IN (SELECT account FROM #postings WHERE number<0), account")
# group by on typed tables merges
q("SELECT payee, count(*) FROM #transactions GROUP BY narration")
# sum of bool? aggregator inherits dtype
q("SELECT min(number > 0), max(date), first(account), last(position) ")
q("SELECT sum(number > 0)")
q("SELECT count(*) AS c, first(tags)")
# having
q("SELECT account, sum(number) AS s GROUP BY account HAVING sum(number) > 0")
# date - date sub overloads
q("SELECT date - 1, 1 + date, date - date FROM #postings LIMIT 1")
q("SELECT 1 - date FROM #postings LIMIT 1")
q("SELECT cost_label, cost_number FROM #postings LIMIT 1")
q("SELECT entry.meta, meta, entry_meta('lineno'), any_meta('x') FROM #postings LIMIT 1")
q("SELECT round(1.555, 2), round(15, -1), safediv(1.0, 0), abs(-1), neg(1)")
q("SELECT interval('1 week'), interval('x'), date_bin('1 day', 2020-01-05, 2020-01-01)")
q("SELECT date_trunc('week', 2020-01-05), date_part('epoch', 2020-01-05)")
