import io, sys
exec(open('exp1.py').read().split("# eq defects")[0])
q("SELECT account FROM OPEN ON 2020-01-06 CLOSE")
q("SELECT account FROM year = 2020 OPEN ON 2020-01-06 CLOSE CLEAR")
q("SELECT account, year, number PIVOT BY 1, 2")
q("SELECT account ORDER BY sum(number) + number")
q("SELECT account, sum(number) GROUP BY account HAVING sum(number) > number")
q("SELECT account, count(*) GROUP BY account HAVING sum(sum(number)) > 0")
q("SELECT account ORDER BY sum(sum(number))")
q("SELECT int(decimal('Infinity')) FROM #")
q("SELECT date(99999999999, 1, 1) FROM #")
q("SELECT date(2020, 1, 1) + 99999999999 FROM #")
q("SELECT date FROM #postings WHERE account IN (SELECT account FROM #accounts)")
q("SELECT account IN (SELECT account FROM #accounts), date FROM #postings")
q("SELECT date, account FROM #postings WHERE account IN (SELECT account FROM #postings) ORDER BY date")
c = conn.execute("SELECT account LIMIT 3"); a = list(c); b = c.fetchall(); print('iter then fetchall', len(a), len(b), c.rownumber)
from beanquery import shell, parser
for t in ["SELECT\n", "SELECT a FROM", "SELECT a,\n\n", ""]:
    try: parser.parse(t)
    except Exception as e:
        pi = getattr(e,'parseinfo',None)
        print(repr(t), type(e).__name__, pi and (pi.pos, pi.endpos, pi.line, len(t)))
        try: print(shell.render_exception(e))
        except Exception as e2: print('  render_exception ERR', type(e2).__name__, e2)
