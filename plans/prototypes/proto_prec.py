import tatsu
from tatsu import grammars as G
g = tatsu.compile(open('/repo/beanquery/parser/bql.ebnf').read())
rules = {r.name: r for r in g.rules}
def cls(r):
    return r.params[0].split('::')[0] if r.params else None
def children(e):
    if isinstance(e, G.Choice): return list(e.options)
    if isinstance(e, G.Sequence): return list(e.sequence)
    if hasattr(e, 'exp') and e.exp is not None: return [e.exp]
    return []
def strip(e):
    # remove Option wrapper
    while isinstance(e, G.Option) or (isinstance(e, G.Sequence) and len(e.sequence)==1) or isinstance(e, G.Group):
        e = e.exp if not isinstance(e, G.Sequence) else e.sequence[0]
    return e
def unit_targets(e):
    """rule names reachable from expression e without consuming a bracketing token:
    alternatives that are a lone RuleRef, or prefix-token + Override(RuleRef) (transparent prefix)"""
    e = strip(e)
    if isinstance(e, G.RuleRef): return [e.name]
    if isinstance(e, G.Choice):
        out=[]
        for o in e.options: out += unit_targets(o)
        return out
    if isinstance(e, G.Sequence):
        seq=[strip(x) for x in e.sequence if not isinstance(x, G.Cut)]
        toks=[x for x in seq if isinstance(x, G.Token)]
        ovs=[x for x in seq if isinstance(x, G.Override)]
        if len(ovs)==1 and len(seq)==len(toks)+1:
            # transparent wrapper: prefix-only => not a bracket; token on both sides => bracket
            idx=seq.index(ovs[0])
            if idx==len(seq)-1 and len(toks)>=1: return unit_targets(ovs[0].exp)   # prefix form
            return []  # bracketed
    return []
import functools
@functools.lru_cache(None)
def derivable(name):
    """set of AST classes derivable from rule `name` without brackets"""
    r = rules[name]
    c = cls(r)
    if c: return frozenset([c])
    out=set()
    for t in unit_targets(r.exp):
        out |= derivable(t)
    return frozenset(out)
def operands(r):
    out={}
    def walk(e):
        if isinstance(e, (G.Named, G.NamedList)):
            tg = unit_targets(e.exp) if not isinstance(strip(e.exp), (G.Gather, G.PositiveGather, G.Closure)) else None
            if tg is None:
                inner = strip(e.exp); tg = unit_targets(inner.exp)
            out.setdefault(e.name, set())
            for t in tg: out[e.name] |= derivable(t)
        for c in children(e): walk(c)
    walk(r.exp); return out
OPS = ['Or','And','Not','Less','LessEq','Greater','GreaterEq','Equal','NotEqual','In','NotIn','Match','NotMatch','IsNull','IsNotNull','Between','Add','Sub','Mul','Div','Mod','Neg','Attribute','Subscript']
for name, r in rules.items():
    c = cls(r)
    if c in OPS:
        for field, cs in operands(r).items():
            print(f'{c:10s}.{field:8s} <- {sorted(x for x in cs if x in OPS)}  +atoms={sorted(x for x in cs if x not in OPS)}')
