import ast, sys, pathlib
ROOT = pathlib.Path('/repo/beanquery')
mods = {}
for p in ROOT.rglob('*.py'):
    if p.name.endswith('_test.py') or 'tests' in p.parts: continue
    mods[str(p.relative_to(ROOT.parent))] = ast.parse(p.read_text())
# collect classes (incl. nested) with bases names
classes = {}
class V(ast.NodeVisitor):
    def __init__(s, mod): s.mod=mod; s.stack=[]
    def visit_ClassDef(s, n):
        q='.'.join(s.stack+[n.name]); classes[(s.mod,q)] = (n, bool(s.infunc))
        s.stack.append(n.name); s.generic_visit(n); s.stack.pop()
    infunc=0
    def visit_FunctionDef(s, n):
        s.stack.append(n.name); s.infunc+=1; s.generic_visit(n); s.infunc-=1; s.stack.pop()
for m,t in mods.items(): V(m).visit(t)
def basenames(n): return [ast.unparse(b).split('.')[-1] for b in n.bases]
byname = {}
for (m,q),(n,inf) in classes.items(): byname.setdefault(n.name, []).append((m,q,n,inf))
def mro(name, seen=()):
    # crude linearisation by name
    if name not in byname: return []
    m,q,n,inf = byname[name][0]
    out=[(name,n)]
    for b in basenames(n):
        if '(' in b or 'if' in b: 
            for cand in ('EvalUnaryOp','EvalUnaryOpSafe'): out+= mro(cand)
        else: out += mro(b)
    return out
def is_evalnode(name): return any(x=='EvalNode' for x,_ in mro(name))
def slots_of(n):
    for st in n.body:
        if isinstance(st, ast.Assign) and any(isinstance(t, ast.Name) and t.id=='__slots__' for t in st.targets):
            return [e.value for e in st.value.elts]
    return None
def self_attrs(fn, ctx):
    out=set()
    for x in ast.walk(fn):
        if isinstance(x, ast.Attribute) and isinstance(x.value, ast.Name) and x.value.id=='self' and isinstance(x.ctx, ctx): out.add(x.attr)
    return out
for name, lst in sorted(byname.items()):
    for (m,q,n,inf) in lst:
        if not is_evalnode(name): continue
        chain = mro(name)
        eff=None
        for cn,cnode in chain:
            s=slots_of(cnode)
            if s is not None: eff=s; break
        init_params=set(); written=set(); read=set()
        for cn,cnode in chain:
            for st in cnode.body:
                if isinstance(st, ast.FunctionDef) and st.name=='__init__':
                    params={a.arg for a in st.args.args[1:]}
                    for x in ast.walk(st):
                        if isinstance(x, ast.Assign):
                            for t in x.targets:
                                if isinstance(t, ast.Attribute) and isinstance(t.value, ast.Name) and t.value.id=='self':
                                    names={y.id for y in ast.walk(x.value) if isinstance(y, ast.Name)}
                                    if names & params: written.add(t.attr)
                if isinstance(st, ast.FunctionDef) and st.name in ('__call__','update','initialize','finalize','__iter__'):
                    read |= self_attrs(st, ast.Load)
        miss = (read & written) - set(eff or [])
        print(f'{m}:{q:40s} infunc={inf} slots={eff} identity={sorted(read&written)} MISSING={sorted(miss)}')
