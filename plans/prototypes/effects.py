import ast, pathlib
ROOT = pathlib.Path('/repo/beanquery')
MUT = {'append','extend','insert','pop','remove','clear','sort','reverse','add','update','setdefault','popitem','add_position','add_amount','add_inventory','discard'}
for p in sorted(ROOT.rglob('*.py')):
    if p.name.endswith('_test.py') or 'tests' in p.parts or p.name=='parser.py': continue
    tree = ast.parse(p.read_text())
    modlevel = {t.id for st in tree.body if isinstance(st,(ast.Assign,)) for t in st.targets if isinstance(t, ast.Name)}
    modlevel |= {a.asname or a.name.split('.')[0] for st in tree.body if isinstance(st,(ast.Import,ast.ImportFrom)) for a in st.names}
    def root(e):
        while isinstance(e,(ast.Attribute,ast.Subscript,ast.Call)):
            e = e.value if not isinstance(e, ast.Call) else e.func
        return e.id if isinstance(e, ast.Name) else None
    class V(ast.NodeVisitor):
        stack=[]
        def visit_FunctionDef(s,n):
            s.stack.append(n); 
            for d in n.decorator_list:
                ds = ast.unparse(d)
                if 'cache' in ds: print(f'{p.relative_to(ROOT)}:{n.name}: MEMO decorator {ds}')
            s.generic_visit(n); s.stack.pop()
        def visit_ClassDef(s,n): s.stack.append(n); s.generic_visit(n); s.stack.pop()
        def rep(s,n,what,recv):
            if not any(isinstance(x, ast.FunctionDef) for x in s.stack): return
            fn='.'.join(x.name for x in s.stack)
            r=root(recv)
            fnode=[x for x in s.stack if isinstance(x, ast.FunctionDef)][-1]
            params={a.arg for a in fnode.args.args}
            locs={t.id for x in ast.walk(fnode) if isinstance(x,ast.Assign) for t in x.targets if isinstance(t,ast.Name)}
            kind = 'PARAM' if r in params else 'LOCAL' if r in locs else 'MODULE' if r in modlevel else 'FREE'
            print(f'{p.relative_to(ROOT)}:{fn}: {what} {ast.unparse(recv)} [{kind}:{r}]')
        def visit_Assign(s,n):
            for t in n.targets:
                for x in (t.elts if isinstance(t, ast.Tuple) else [t]):
                    if isinstance(x,(ast.Attribute,ast.Subscript)): s.rep(n,'STORE',x)
            s.generic_visit(n)
        def visit_AugAssign(s,n):
            if isinstance(n.target,(ast.Attribute,ast.Subscript)): s.rep(n,'AUG',n.target)
            s.generic_visit(n)
        def visit_Call(s,n):
            if isinstance(n.func, ast.Attribute) and n.func.attr in MUT: s.rep(n,'MUTCALL.'+n.func.attr,n.func.value)
            if isinstance(n.func, ast.Name) and n.func.id=='setattr': s.rep(n,'SETATTR',n.args[0])
            s.generic_visit(n)
        def visit_Global(s,n): print(p.name,'GLOBAL',n.names)
    V().visit(tree)
