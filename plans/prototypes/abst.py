"""Scratch prototype of the abstract type interpreter (sampling-based transfer functions
to discover which table rows are needed)."""
import ast, datetime, decimal, re, typing, collections, copy, operator, textwrap
from decimal import Decimal
from dateutil.relativedelta import relativedelta
from beancount.core import data, amount, position, inventory

NoneT = type(None)
TOP = 'TOP'
class Raises(Exception): pass

A = amount.Amount(Decimal('1.5'), 'USD')
C = position.Cost(Decimal('2'), 'USD', datetime.date(2020,1,1), None)
P = position.Position(A, C)
INV = inventory.Inventory([P])
POSTING = data.Posting('Assets:A', A, C, None, None, {'filename':'f','lineno':1})
TXN = data.Transaction({'filename':'f','lineno':1}, datetime.date(2020,1,1), '*', 'p', 'n', frozenset(), frozenset(), [POSTING])
SAMPLES = {
    int: [3], bool: [True], Decimal: [Decimal('1.5')], str: ['abc'], datetime.date: [datetime.date(2020,2,3)],
    relativedelta: [relativedelta(days=2)], datetime.timedelta: [datetime.timedelta(days=1)],
    amount.Amount: [A], position.Position: [P], position.Cost: [C], inventory.Inventory: [INV],
    set: [{'a'}], frozenset: [frozenset({'a'})], list: [['a']], dict: [{'a': 1}], tuple: [('a',)],
    data.Transaction: [TXN], data.Posting: [POSTING], NoneT: [None],
}
def atoms(*ts): return frozenset(ts)
def is_top(v): return v == TOP
def join(*vs):
    out=set()
    for v in vs:
        if is_top(v): return TOP
        out |= v
    return frozenset(out)

class Interp:
    def __init__(self, globs, log):
        self.globs = globs   # name -> python object (resolved imports) or abstract
        self.log = log       # transfer rows used
        self.raises = set()
        self.returns = []
    def sample_apply(self, desc, f, *argsets):
        """apply f to all sample combos of atom types; collect result types / exceptions"""
        if any(is_top(a) for a in argsets): return TOP
        out=set()
        import itertools
        for combo in itertools.product(*[sorted(a, key=repr) for a in argsets]):
            if any(t not in SAMPLES for t in combo): return TOP
            vals=[SAMPLES[t][0] for t in combo]
            try:
                r = f(*vals)
                out.add(type(r)); self.log.add((desc, tuple(t.__name__ for t in combo), type(r).__name__))
            except (TypeError, AttributeError) as e:
                self.raises.add((type(e).__name__, desc, tuple(t.__name__ for t in combo)))
                self.log.add((desc, tuple(t.__name__ for t in combo), 'raises '+type(e).__name__))
            except Exception as e:
                # value-dependent failure on samples: unknown
                return TOP
        return frozenset(out)
    # --- expressions
    def ev(self, e, env):
        m = getattr(self, 'e_'+type(e).__name__, None)
        if m is None: return TOP
        return m(e, env)
    def e_Constant(self, e, env): return atoms(type(e.value))
    def e_Name(self, e, env):
        if e.id in env: return env[e.id]
        if e.id in self.globs:
            return ('OBJ', self.globs[e.id])
        import builtins
        if hasattr(builtins, e.id): return ("OBJ", getattr(builtins, e.id))
        return TOP
    def e_JoinedStr(self, e, env): return atoms(str)
    def e_Tuple(self, e, env): return ('TUPLE', [self.ev(x, env) for x in e.elts])
    def e_List(self, e, env): return atoms(list)
    def e_ListComp(self, e, env): return atoms(list)
    def e_SetComp(self, e, env): return atoms(set)
    def e_Set(self, e, env): return atoms(set)
    def e_Dict(self, e, env): return atoms(dict)
    def e_DictComp(self, e, env): return atoms(dict)
    def e_GeneratorExp(self, e, env): return TOP
    def e_IfExp(self, e, env):
        t_env, f_env = self.refine(e.test, env)
        return join(self.val(self.ev(e.body, t_env)), self.val(self.ev(e.orelse, f_env)))
    def val(self, v):
        if isinstance(v, tuple) and v and v[0] in ('OBJ','TUPLE'): return TOP if v[0]=='OBJ' else atoms(tuple)
        return v
    def e_BinOp(self, e, env):
        l, r = self.val(self.ev(e.left, env)), self.val(self.ev(e.right, env))
        ops = {ast.Add: operator.add, ast.Sub: operator.sub, ast.Mult: operator.mul, ast.Div: operator.truediv, ast.Mod: operator.mod, ast.FloorDiv: operator.floordiv}
        f = ops.get(type(e.op))
        if not f: return TOP
        return self.sample_apply(type(e.op).__name__, f, l, r)
    def e_UnaryOp(self, e, env):
        v = self.val(self.ev(e.operand, env))
        if isinstance(e.op, ast.Not): return atoms(bool)
        if isinstance(e.op, ast.USub): return self.sample_apply('neg', operator.neg, v)
        return TOP
    def e_BoolOp(self, e, env):
        return join(*[self.val(self.ev(x, env)) for x in e.values])
    def e_Compare(self, e, env):
        l = self.val(self.ev(e.left, env))
        for op, c in zip(e.ops, e.comparators):
            r = self.val(self.ev(c, env))
            if isinstance(op, (ast.Is, ast.IsNot, ast.Eq, ast.NotEq)): continue
            f = {ast.Lt: operator.lt, ast.Gt: operator.gt, ast.LtE: operator.le, ast.GtE: operator.ge, ast.In: lambda a,b: a in b, ast.NotIn: lambda a,b: a not in b}[type(op)]
            self.sample_apply(type(op).__name__, f, l, r)
            l = r
        return atoms(bool)
    def e_Attribute(self, e, env):
        base = self.ev(e.value, env)
        if isinstance(base, tuple) and base[0]=='OBJ':
            try: return ('OBJ', getattr(base[1], e.attr))
            except AttributeError: return TOP
        if is_top(base): return TOP
        out=set()
        for t in base:
            if t is NoneT:
                self.raises.add(('AttributeError', 'attr '+e.attr, ('NoneType',))); continue
            hints = {}
            try: hints = typing.get_type_hints(t)
            except Exception: pass
            if e.attr in hints:
                out |= self.from_hint(hints[e.attr]); continue
            if t in SAMPLES:
                try:
                    v = getattr(SAMPLES[t][0], e.attr)
                except AttributeError:
                    self.raises.add(('AttributeError', 'attr '+e.attr, (t.__name__,))); continue
                if callable(v): return ('METH', base, e.attr)
                out.add(type(v))
            else: return TOP
        return frozenset(out)
    def from_hint(self, h):
        o = typing.get_origin(h)
        if o is typing.Union:
            s=set()
            for a in typing.get_args(h):
                r = self.from_hint(a)
                if is_top(r): return TOP
                s |= r
            return s
        if o is not None: h = o
        if h is typing.Any: return TOP
        if isinstance(h, type): return {h}
        return TOP
    def e_Subscript(self, e, env):
        base = self.ev(e.value, env)
        if isinstance(base, tuple) and base[0]=='TUPLE' and isinstance(e.slice, ast.Constant):
            return base[1][e.slice.value]
        base = self.val(base)
        if is_top(base): return TOP
        if base <= {str} : return atoms(str)
        if NoneT in base: self.raises.add(('TypeError','subscript',('NoneType',)))
        return TOP
    def e_Call(self, e, env):
        f = self.ev(e.func, env)
        args = [self.val(self.ev(a, env)) for a in e.args]
        if isinstance(f, tuple) and f[0]=='METH':
            _, base, name = f
            return self.sample_apply('.'+name, lambda o,*a: getattr(o, name)(*a), base, *args) if name in METH_OK else TOP
        if isinstance(f, tuple) and f[0]=='OBJ':
            obj = f[1]
            if obj in CALL_TABLE: return CALL_TABLE[obj](self, args)
            if isinstance(obj, type) and obj in SAMPLES and not args: return atoms(obj)
            if isinstance(obj, type) and obj in (position.Position, amount.Amount, inventory.Inventory, datetime.date, datetime.timedelta, relativedelta): return atoms(obj)
            h = None
            try: h = typing.get_type_hints(obj).get('return')
            except Exception: pass
            if h is not None:
                r = self.from_hint(h)
                return r if is_top(r) else frozenset(r)
        return TOP
    # --- refinement
    def refine(self, test, env):
        t, f = dict(env), dict(env)
        if isinstance(test, ast.Compare) and len(test.ops)==1 and isinstance(test.left, ast.Name) and test.left.id in env and not is_top(env[test.left.id]) and not isinstance(env[test.left.id], tuple):
            v = env[test.left.id]; n = test.left.id; c = test.comparators[0]
            if isinstance(c, ast.Constant) and c.value is None:
                if isinstance(test.ops[0], ast.Is): t[n] = v & {NoneT}; f[n] = v - {NoneT}
                if isinstance(test.ops[0], ast.IsNot): f[n] = v & {NoneT}; t[n] = v - {NoneT}
        if isinstance(test, ast.Name) and test.id in env and not is_top(env[test.id]) and not isinstance(env[test.id], tuple):
            t[test.id] = env[test.id] - {NoneT}
        if isinstance(test, ast.Call) and isinstance(test.func, ast.Name) and test.func.id=='isinstance' and isinstance(test.args[0], ast.Name) and test.args[0].id in env:
            n = test.args[0].id; v = env[n]; cls_ = self.ev(test.args[1], env)
            if isinstance(cls_, tuple) and cls_[0]=='OBJ' and not is_top(v):
                t[n] = frozenset(x for x in v if x is not NoneT and issubclass(x, cls_[1])); f[n] = v - t[n]
        if isinstance(test, ast.UnaryOp) and isinstance(test.op, ast.Not):
            a, b = self.refine(test.operand, env); return b, a
        return t, f
    # --- statements
    def run(self, body, env):
        """returns env at fallthrough or None if all paths returned"""
        for st in body:
            if env is None: return None
            env = self.stmt(st, env)
        return env
    def stmt(self, st, env):
        if isinstance(st, ast.Return):
            self.returns.append(self.ev(st.value, env) if st.value else atoms(NoneT)); return None
        if isinstance(st, ast.Raise): return None
        if isinstance(st, ast.Expr): self.ev(st.value, env); return env
        if isinstance(st, ast.Assign):
            v = self.ev(st.value, env); env = dict(env)
            for tg in st.targets:
                if isinstance(tg, ast.Name): env[tg.id] = v if not (isinstance(v, tuple) and v[0]=='OBJ') else TOP
                elif isinstance(tg, ast.Tuple) and isinstance(v, tuple) and v[0]=='TUPLE':
                    for x, xv in zip(tg.elts, v[1]):
                        if isinstance(x, ast.Name): env[x.id] = xv
                elif isinstance(tg, ast.Tuple):
                    for x in tg.elts:
                        if isinstance(x, ast.Name): env[x.id] = TOP
            return env
        if isinstance(st, ast.AugAssign):
            if isinstance(st.target, ast.Name): env = dict(env); env[st.target.id] = TOP
            return env
        if isinstance(st, ast.If):
            self.ev(st.test, env)
            t, f = self.refine(st.test, env)
            a = self.run(st.body, t); b = self.run(st.orelse, f)
            if a is None: return b
            if b is None: return a
            out = {}
            for k in set(a) | set(b):
                x, y = a.get(k, TOP), b.get(k, TOP)
                out[k] = x if x == y else (TOP if (isinstance(x, tuple) or isinstance(y, tuple)) else join(x, y))
            return out
        if isinstance(st, ast.Try):
            saved = set(self.raises)
            a = self.run(st.body, env)
            caught = set()
            for h in st.handlers:
                names = [ast.unparse(x) for x in (h.type.elts if isinstance(h.type, ast.Tuple) else [h.type])] if h.type else ['Exception']
                caught |= {n.split('.')[-1] for n in names}
                self.run(h.body, env)
            self.raises = saved | {r for r in self.raises - saved if r[0] not in caught}
            return a if a is not None else env
        if isinstance(st, (ast.For, ast.While)):
            e2 = dict(env)
            if isinstance(st, ast.For) and isinstance(st.target, ast.Name): e2[st.target.id] = TOP
            for n in ast.walk(st):
                if isinstance(n, (ast.Assign, ast.AugAssign)):
                    for tg in (n.targets if isinstance(n, ast.Assign) else [n.target]):
                        if isinstance(tg, ast.Name): e2[tg.id] = TOP
            self.run(st.body, e2); return e2
        return env

METH_OK = {'upper','lower','split','strftime','weekday','isoweekday','isocalendar','total_seconds','date','group','search','get','is_empty','get_currency_units','reduce','currencies','add_position','startswith','strip','join','format'}
from beancount.core import convert, account as acc, prices, getters
from beancount.core.account_types import get_account_sign, get_account_sort_key
from beancount.core.compare import hash_entry
def const(*ts): return lambda self, args: atoms(*ts)
def sampled(desc, f): return lambda self, args: self.sample_apply(desc, f, *args)
CALL_TABLE = {
    int: sampled('int()', int), str: const(str), bool: const(bool), repr: const(str), len: sampled('len()', len),
    abs: sampled('abs()', abs), round: sampled('round()', round), Decimal: sampled('Decimal()', Decimal),
    sorted: const(list), any: const(bool), all: const(bool), type: lambda s,a: TOP,
    convert.get_units: const(amount.Amount), convert.get_cost: const(amount.Amount), convert.get_weight: const(amount.Amount),
    convert.get_value: const(amount.Amount), convert.convert_position: const(amount.Amount), convert.convert_amount: const(amount.Amount),
    acc.root: const(str), acc.parent: const(str, NoneT), acc.leaf: const(str, NoneT), hash_entry: const(str),
    get_account_sign: const(int), prices.get_price: lambda s,a: ('TUPLE', [atoms(datetime.date, NoneT), atoms(Decimal, NoneT)]),
    get_account_sort_key: lambda s,a: ('TUPLE', [atoms(int), atoms(str)]),
    re.search: const(re.Match, NoneT), re.match: const(re.Match, NoneT), re.sub: const(str), re.fullmatch: const(re.Match, NoneT),
    textwrap.shorten: const(str), copy.copy: lambda s,a: a[0],
    datetime.datetime.strptime: const(datetime.datetime), operator.contains: sampled('contains', operator.contains), operator.not_: const(bool),
    getters.get_entry_accounts: const(set),
}
SAMPLES[re.Match] = [re.search('a','a')]; SAMPLES[datetime.datetime] = [datetime.datetime(2020,1,1)]
