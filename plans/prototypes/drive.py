import ast, importlib, sys, datetime, types as pytypes
from abst import *
ROOT='/repo/beanquery/'
def load(mod):
    return ast.parse(open(ROOT+mod).read())
class Stub:
    def __init__(s, name): s._n=name
    def __getattr__(s, k): return Stub(s._n+'.'+k)
    def __repr__(s): return s._n
def module_globals(tree):
    g={}
    for st in tree.body:
        if isinstance(st, ast.Import):
            for a in st.names:
                if a.name.startswith('beanquery'): g[(a.asname or a.name).split('.')[0]] = Stub(a.name); continue
                m = importlib.import_module(a.name); g[a.asname or a.name.split('.')[0]] = m if a.asname else importlib.import_module(a.name.split('.')[0])
        elif isinstance(st, ast.ImportFrom):
            if st.level or (st.module or '').startswith('beanquery'):
                for a in st.names: g[a.asname or a.name] = Stub((st.module or '.')+'.'+a.name)
                continue
            m = importlib.import_module(st.module)
            for a in st.names:
                try: g[a.asname or a.name] = getattr(m, a.name)
                except AttributeError: g[a.asname or a.name] = importlib.import_module(st.module+'.'+a.name)
    return g
def tyexpr(e, g):
    s = ast.unparse(e)
    if s in ('types.Any',): return 'ANY'
    if s == 'types.Asterisk': return 'ASTERISK'
    try: return eval(s, dict(g))
    except Exception as ex: return Stub(s)
def overloads(tree, g):
    out=[]
    for st in tree.body:
        if isinstance(st, ast.FunctionDef):
            for d in st.decorator_list:
                if isinstance(d, ast.Call) and isinstance(d.func, ast.Name) and d.func.id in ('function','binaryop','unaryop'):
                    kw = {k.arg: k.value for k in d.keywords}
                    if d.func.id=='function':
                        intypes=[tyexpr(x,g) for x in d.args[0].elts]; out_=tyexpr(d.args[1],g)
                        name = kw['name'].value if 'name' in kw else st.name
                        extra = 1 if any(k in kw and getattr(kw[k],'value',None) for k in ('pass_row','pass_context')) else 0
                        out.append(('F', name, intypes, out_, st, extra))
                    else:
                        op = ast.unparse(d.args[0]); intypes=[tyexpr(x,g) for x in d.args[1].elts]; out_=tyexpr(d.args[2],g)
                        out.append(('O', op, intypes, out_, st, 0))
                elif isinstance(d, ast.Call) and isinstance(d.func, ast.Name) and d.func.id=='column':
                    out.append(('C', d.args[1].value if len(d.args)>1 else st.name, ['ROW'], tyexpr(d.args[0],g), st, 0))
    return out
KIND = {set:'coll', frozenset:'coll', list:'coll', tuple:'coll'}
def conforms(t, decl):
    if t is NoneT or decl is object: return True
    if KIND.get(t) and KIND.get(decl): return True
    try: return issubclass(t, decl)
    except TypeError: return False
import collections
stats=collections.Counter(); log=set(); per=collections.Counter()
class Row: pass
for mod in ['query_compile.py','query_env.py']:
    tree=load(mod); g=module_globals(tree)
    table='entries'
    for kind,name,intypes,out_,fn,extra in overloads(tree,g):
        if kind=='C':
            continue
        if any(t=='ANY' or isinstance(t,Stub) or t=='ASTERISK' for t in intypes): stats['skipped-any']+=1; continue
        it=Interp(g, log)
        params=[a.arg for a in fn.args.args]
        env={}
        for i,p in enumerate(params[:extra]): env[p]=TOP
        defaults = fn.args.defaults
        for i,p in enumerate(params[extra:]):
            if i < len(intypes): env[p]=atoms(intypes[i])
            else:
                j = i - (len(params)-extra-len(defaults))
                env[p]=atoms(type(defaults[j].value)) if 0 <= j < len(defaults) else TOP
        it.run(fn.body, env)
        rets=[it.val(r) for r in it.returns] or [atoms(NoneT)]
        res = join(*rets)
        label=f'{kind} {name}{[getattr(t,"__name__",t) for t in intypes]} -> {getattr(out_,"__name__",out_)}'
        typeerrs=[r for r in it.raises if r[0] in ('TypeError','AttributeError')]
        per[(kind, 'top' if is_top(res) else 'resolved')]+=1
        if is_top(res): stats['top']+=1; print('TOP      ', label)
        else:
            bad=[t for t in res if not conforms(t,out_)]
            if bad: stats['MISMATCH']+=1; print('MISMATCH ', label, 'inferred', sorted(x.__name__ for x in res))
            else: stats['ok']+=1
        if typeerrs: stats['TYPEERR']+=1; print('TYPEERR  ', label, typeerrs)
print(stats); print(per)
